(** C06, the CLASSES of the known findings as theorems.  Statements only; every proof is
    [exact <lemma of Proof/Windows2.v>].

    Properties/C06w.v proves C06 for ALL windows on the partial entry points where it holds.  For the
    remaining partial entry points the driver models carry known defects (known_findings.txt).  Here
    the window is again universally quantified, and each theorem says exactly WHAT the entry point
    programs and WHAT [Checks.chk_c06] reports, for EVERY byte-aligned window (x, y, w, h) inside the
    panel ([aligned_in W H x y w h]), EVERY call index [k], a buffer of exactly the window's size
    ([len = w / 8 * h]), EVERY value [d] of the driver's own fields (hypotheses where a field matters)
    and EVERY controller state [c] an earlier call could have left: SSD-type [ssd_havoc c] (no frame
    open, not in deep sleep, data entry mode X+ Y+; window, counters, update control, pending flag,
    seen list, last command, taint ARBITRARY), UC-type [idle c] (no frame open, not in deep sleep).

    Reading guide (definitions in Proof/Windows2.v, Proof/Windows.v, Proof/Havoc.v).
    - [c06x_call P m k hb len x y w h d c bursts cl d' c']: running the driver model [m] on fields [d]
      returns normally with fields [d'] and transport calls [t]; feeding [calls t] to the controller
      specification [Ctl.ccall (ps_cp P)] from state [c] gives final state [c'] and effects [es];
      [Checks.chk_c06 P sym k hb len x y w h es = cl] (EXACTLY the clause list [cl]); the data runs among
      [es] are exactly [bursts]; and [chk_stray es = []] (window parameters travel as parameters of the
      window command, never as stray data of another command - this part of C06 HOLDS everywhere).
    - [sys_c06x ft P k s o hb len x y w h cl s']: [Sys.sys_op ft P k s o = OpOk s' es ic] with
      [chk_c06 P sym k hb len x y w h es = cl].
    - [ClWindow f]: field f of the geometry a run was written under differs from the request;
      SSD fields: 0 entry mode, 1 xs, 2 xe, 3 ys, 4 ye, 5 X counter, 6 Y counter; UC: 0 partial flag,
      1 first column, 2 last column, 3 first row, 4 last row (byte columns, inclusive ends).
    - [geom_over x y w h] = entry 3, xs = x/8, xe = (x+w)/8, ys = y, ye = y+h, counter (x/8, y):
      correct origin and counter, window END registers holding the EXCLUSIVE end.
      [geom_px] the same with X counter = x (pixel units); [geom_00] the same with counter (0, 0).
    - [advance3 g i] (Ctl.v): the address counter after [i] bytes written from geometry [g] = the cell
      byte [i] of a run lands in; [None] = counter outside the window (the specification then gives up:
      counters 65535, [c_tainted]). *)
From Coq Require Import List NArith Bool.
From EPD Require Import Iface Ops Panels Ctl.Ctl Spec.PSpec Spec.Checks Spec.Sys Spec.Specs Spec.Oracle
  Drv.Epd1in54 Drv.Epd1in54_v2 Drv.Epd2in9 Drv.Epd2in13_v2 Drv.Epd2in9_v2 Drv.Epd2in7_v2 Drv.Epd2in66b
  Drv.Epd5in83b_v2 Drv.Epd4in2 Drv.Epd7in5b_v2 Drv.Epd2in9d Proof.Windows Proof.Havoc Proof.Windows2.
Import ListNotations.
Open Scope N_scope.

(** * 1. Type-A SSD panels: finding class "ANY aligned window" (window fields 2 and 4) *)
(** One data run 0x24 carrying the caller's buffer, [w/8*h] bytes, written under [geom_over]:
    [chk_c06 = [ClWindow 2; ClWindow 4]] for EVERY aligned window; afterwards the window registers
    hold the over-sized window and the counter is where [w/8*h] bytes leave it in a (w/8+1)-wide window. *)
Theorem C06x_epd1in54_update_partial_frame : forall k len x y w h c d,
  aligned_in 200 200 x y w h -> len = w / 8 * h -> ssd_havoc c ->
  exists c', c06x_call spec_1in54 (Epd1in54.update_partial_frame k len x y w h) k true len x y w h d c
                       [EBurstSsd 0x24 P1 (geom_over x y w h) [SData (DArg k 0 0 len)]]
                       [ClWindow 2; ClWindow 4] d c'
             /\ ssd_havoc c'
             /\ geom_of c' = mkGeom 3 (x / 8) ((x + w) / 8) y (y + h)
                                    (x / 8 + len mod (w / 8 + 1)) (y + len / (w / 8 + 1)).
Proof. exact epd1in54_update_partial_frame_class. Qed.

Theorem C06x_epd1in54_v2_update_partial_frame : forall k len x y w h c d,
  aligned_in 200 200 x y w h -> len = w / 8 * h -> ssd_havoc c ->
  exists c', c06x_call spec_1in54_v2 (Epd1in54_v2.update_partial_frame k len x y w h) k true len x y w h d c
                       [EBurstSsd 0x24 P1 (geom_over x y w h) [SData (DArg k 0 0 len)]]
                       [ClWindow 2; ClWindow 4] d c'
             /\ ssd_havoc c'
             /\ geom_of c' = mkGeom 3 (x / 8) ((x + w) / 8) y (y + h)
                                    (x / 8 + len mod (w / 8 + 1)) (y + len / (w / 8 + 1)).
Proof. exact epd1in54_v2_update_partial_frame_class. Qed.

Theorem C06x_epd2in9_update_partial_frame : forall k len x y w h c d,
  aligned_in 128 296 x y w h -> len = w / 8 * h -> ssd_havoc c ->
  exists c', c06x_call spec_2in9 (Epd2in9.update_partial_frame k len x y w h) k true len x y w h d c
                       [EBurstSsd 0x24 P1 (geom_over x y w h) [SData (DArg k 0 0 len)]]
                       [ClWindow 2; ClWindow 4] d c'
             /\ ssd_havoc c'
             /\ geom_of c' = mkGeom 3 (x / 8) ((x + w) / 8) y (y + h)
                                    (x / 8 + len mod (w / 8 + 1)) (y + len / (w / 8 + 1)).
Proof. exact epd2in9_update_partial_frame_class. Qed.

(** epd2in13_v2 in Full mode writes the window twice: the 0x24 plane and the 0x26 copy, each after
    programming the same over-sized window: the clause pair is reported once per run *)
Theorem C06x_epd2in13_v2_update_partial_frame : forall k len x y w h c d,
  aligned_in 122 250 x y w h -> len = w / 8 * h -> refresh d = 0 -> ssd_havoc c ->
  exists c', c06x_call spec_2in13_v2 (Epd2in13_v2.update_partial_frame k len x y w h) k true len x y w h d c
                       [EBurstSsd 0x24 P1 (geom_over x y w h) [SData (DArg k 0 0 len)];
                        EBurstSsd 0x26 P2 (geom_over x y w h) [SData (DArg k 0 0 len)]]
                       [ClWindow 2; ClWindow 4; ClWindow 2; ClWindow 4] d c'
             /\ ssd_havoc c'
             /\ geom_of c' = mkGeom 3 (x / 8) ((x + w) / 8) y (y + h)
                                    (x / 8 + len mod (w / 8 + 1)) (y + len / (w / 8 + 1)).
Proof. exact epd2in13_v2_update_partial_frame_class. Qed.
(** outside Full mode the entry point refuses every window (assert on the refresh mode) *)
Theorem C06x_epd2in13_v2_update_partial_frame_quick_panics : forall k len x y w h d,
  aligned_in 122 250 x y w h -> len = w / 8 * h -> refresh d <> 0 ->
  Epd2in13_v2.update_partial_frame k len x y w h d = (None, d, [IPanic]).
Proof. exact epd2in13_v2_update_partial_frame_quick_panics. Qed.

Example C06x_typeA_nonvacuous :
  aligned_in 200 200 8 4 64 2 /\ aligned_in 200 200 192 199 8 1 /\ aligned_in 128 296 120 295 8 1 /\
  aligned_in 122 250 112 249 8 1 /\ 16 = 64 / 8 * 2 /\
  Forall (fun P => match sys_new (mkFeat false false) P with
                   | Some (s, _, _) => ssd_havoc (y_c s) /\ refresh (y_d s) = 0 /\ aligned_inside P 8 4 64 2 = true
                   | None => False
                   end) [spec_1in54; spec_1in54_v2; spec_2in9; spec_2in13_v2].
Proof.
  repeat (split; [repeat split; discriminate|]).
  repeat (apply Forall_cons; [vm_compute; repeat split; discriminate|]). apply Forall_nil.
Qed.

(** the consequence for memory.  The programmed window holds (w/8+1)*(h+1) cells but receives w/8*h
    bytes; with the counter stepping of [Ctl.advance3], byte [i] lands at column x/8 + i mod (w/8+1),
    row y + i / (w/8+1) ... *)
Theorem C06x_typeA_cell : forall W H x y w h i,
  aligned_in W H x y w h -> i <= w / 8 * h ->
  advance3 (geom_over x y w h) i = Some (x / 8 + i mod (w / 8 + 1), y + i / (w / 8 + 1)).
Proof. exact over_cell. Qed.
(** ... so the first row of the window is placed where the request puts it
    ([req_cell x y w h i] = (x/8 + i mod (w/8), y + i / (w/8))) ... *)
Theorem C06x_typeA_first_row : forall W H x y w h i,
  aligned_in W H x y w h -> i < w / 8 ->
  advance3 (geom_over x y w h) i = Some (req_cell x y w h i).
Proof. exact over_cell_first_row. Qed.
(** ... and EVERY byte after the first row lands in a wrong cell (rows shifted) *)
Theorem C06x_typeA_rows_shifted : forall W H x y w h i,
  aligned_in W H x y w h -> w / 8 <= i -> i < w / 8 * h ->
  advance3 (geom_over x y w h) i <> Some (req_cell x y w h i).
Proof. exact over_cell_shifted. Qed.
(** the closed form of [advance3] behind it: counter at the origin of ANY window *)
Theorem C06x_advance3_origin : forall X XE Y YE i,
  X <= XE -> Y <= YE -> i < (XE - X + 1) * (YE - Y + 1) ->
  advance3 (mkGeom 3 X XE Y YE X Y) i = Some (X + i mod (XE - X + 1), Y + i / (XE - X + 1)).
Proof. exact advance3_origin. Qed.
Example C06x_typeA_cell_nonvacuous :
  aligned_in 200 200 8 4 64 2 /\ 8 <= 64 / 8 * 2 /\ 64 / 8 <= 8 /\ 8 < 64 / 8 * 2 /\
  advance3 (geom_over 8 4 64 2) 8 = Some (9, 4) /\ req_cell 8 4 64 2 8 = (1, 5).
Proof. repeat split; discriminate. Qed.

(** byte-level window lemmas: the literal bytes the model sends, and what they decode to *)
Theorem C06x_bytes_epd1in54 : forall k len x y w h d,
  aligned_in 200 200 x y w h ->
  Epd1in54.update_partial_frame k len x y w h d =
    (Some tt, d, map ICall ([IWait false; IWait false] ++
       ssdA_block (u8 (shr x 3)) (u8 (shr (x + w) 3)) (u8 y) (u8 (shr y 8)) (u8 (y + h)) (u8 (shr (y + h) 8))
                  (u8 (shr x 3)) (u8 y) (u8 (shr y 8)) 0x24 k len)).
Proof. exact upf_1in54_run. Qed.
Theorem C06x_bytes_typeA_decode : forall x y w h,
  x + w < 2048 -> y + h < 65536 ->
  u8 (shr x 3) = x / 8 /\ u8 (shr (x + w) 3) = (x + w) / 8 /\
  le16 (u8 y) (u8 (shr y 8)) = y /\ le16 (u8 (y + h)) (u8 (shr (y + h) 8)) = y + h.
Proof. exact ssdA_bytes. Qed.

(** the same as one [Sys.sys_op] step under the oracle's precondition [aligned_inside] *)
Theorem C06x_sys_epd1in54 : forall ft k len x y w h s,
  aligned_inside spec_1in54 x y w h = true -> len = w / 8 * h -> ssd_havoc (y_c s) ->
  exists s', sys_c06x ft spec_1in54 k s (OUpdatePartial len x y w h) true len x y w h [ClWindow 2; ClWindow 4] s' /\ ssd_havoc (y_c s').
Proof. exact epd1in54_sys_update_partial_class. Qed.
Theorem C06x_sys_epd1in54_v2 : forall ft k len x y w h s,
  aligned_inside spec_1in54_v2 x y w h = true -> len = w / 8 * h -> ssd_havoc (y_c s) ->
  exists s', sys_c06x ft spec_1in54_v2 k s (OUpdatePartial len x y w h) true len x y w h [ClWindow 2; ClWindow 4] s' /\ ssd_havoc (y_c s').
Proof. exact epd1in54_v2_sys_update_partial_class. Qed.
Theorem C06x_sys_epd2in9 : forall ft k len x y w h s,
  aligned_inside spec_2in9 x y w h = true -> len = w / 8 * h -> ssd_havoc (y_c s) ->
  exists s', sys_c06x ft spec_2in9 k s (OUpdatePartial len x y w h) true len x y w h [ClWindow 2; ClWindow 4] s' /\ ssd_havoc (y_c s').
Proof. exact epd2in9_sys_update_partial_class. Qed.
Theorem C06x_sys_epd2in13_v2 : forall ft k len x y w h s,
  aligned_inside spec_2in13_v2 x y w h = true -> len = w / 8 * h -> refresh (y_d s) = 0 -> ssd_havoc (y_c s) ->
  exists s', sys_c06x ft spec_2in13_v2 k s (OUpdatePartial len x y w h) true len x y w h
                      [ClWindow 2; ClWindow 4; ClWindow 2; ClWindow 4] s' /\ ssd_havoc (y_c s').
Proof. exact epd2in13_v2_sys_update_partial_class. Qed.

(** * 2. epd2in9_v2 / epd2in7_v2: additionally the X counter in pixel units *)
(** [px_clauses x] = [ClWindow 2; ClWindow 4] ++ (if x =? 0 then [] else [ClWindow 5]): the counter
    clause is reported for every window with x >= 8.  The counter x lies inside the programmed byte
    columns x/8 .. (x+w)/8 iff 7 * x <= w (then the data starts x - x/8 columns too far right);
    otherwise it is outside the window and the controller specification gives up (tainted). *)
Theorem C06x_epd2in9_v2_update_partial_frame : forall k len x y w h c d,
  aligned_in 128 296 x y w h -> len = w / 8 * h -> ssd_havoc c ->
  exists c', c06x_call spec_2in9_v2 (Epd2in9_v2.update_partial_frame k len x y w h) k true len x y w h d c
                       [EBurstSsd 0x24 P1 (geom_px x y w h) [SData (DArg k 0 0 len)]] (px_clauses x) d c'
             /\ ssd_havoc c'
             /\ c_xs c' = x / 8 /\ c_xe c' = (x + w) / 8 /\ c_ys c' = y /\ c_ye c' = y + h
             /\ (7 * x <= w ->
                 c_xc c' = x / 8 + ((x - x / 8 + len) mod ((w / 8 + 1) * (h + 1))) mod (w / 8 + 1) /\
                 c_yc c' = y + ((x - x / 8 + len) mod ((w / 8 + 1) * (h + 1))) / (w / 8 + 1))
             /\ (w < 7 * x -> c_xc c' = 65535 /\ c_yc c' = 65535 /\ c_tainted c' = true).
Proof. exact epd2in9_v2_update_partial_frame_class. Qed.

Theorem C06x_epd2in7_v2_update_partial_frame : forall k len x y w h c d,
  aligned_in 176 264 x y w h -> len = w / 8 * h -> ssd_havoc c ->
  exists c', c06x_call spec_2in7_v2 (Epd2in7_v2.update_partial_frame k len x y w h) k true len x y w h d c
                       [EBurstSsd 0x24 P1 (geom_px x y w h) [SData (DArg k 0 0 len)]] (px_clauses x) d c'
             /\ ssd_havoc c'
             /\ c_xs c' = x / 8 /\ c_xe c' = (x + w) / 8 /\ c_ys c' = y /\ c_ye c' = y + h
             /\ (7 * x <= w ->
                 c_xc c' = x / 8 + ((x - x / 8 + len) mod ((w / 8 + 1) * (h + 1))) mod (w / 8 + 1) /\
                 c_yc c' = y + ((x - x / 8 + len) mod ((w / 8 + 1) * (h + 1))) / (w / 8 + 1))
             /\ (w < 7 * x -> c_xc c' = 65535 /\ c_yc c' = 65535 /\ c_tainted c' = true).
Proof. exact epd2in7_v2_update_partial_frame_class. Qed.

(** where the pixel-unit counter is, exactly *)
Theorem C06x_px_counter_outside : forall W H x y w h n,
  aligned_in W H x y w h -> w < 7 * x -> advance3 (geom_px x y w h) n = None.
Proof. exact px_counter_outside. Qed.
Theorem C06x_px_counter_inside : forall W H x y w h n,
  aligned_in W H x y w h -> 7 * x <= w ->
  advance3 (geom_px x y w h) n =
    Some (x / 8 + ((x - x / 8 + n) mod ((w / 8 + 1) * (h + 1))) mod (w / 8 + 1),
          y + ((x - x / 8 + n) mod ((w / 8 + 1) * (h + 1))) / (w / 8 + 1)).
Proof. exact px_counter_inside. Qed.
(** the counter is the right one iff x = 0 *)
Theorem C06x_px_counter_right : forall W H x y w h,
  aligned_in W H x y w h -> (geom_px x y w h = geom_over x y w h <-> x = 0).
Proof. exact px_counter_right. Qed.
(** the three kinds of window exist on both panels: x = 0 (counter right), counter inside but wrong
    (x = 8, w = 56; x = 16, w = 112), counter outside (x = 8, w = 8) *)
Example C06x_px_nonvacuous :
  aligned_in 128 296 0 0 8 1 /\ px_clauses 0 = [ClWindow 2; ClWindow 4] /\
  aligned_in 128 296 8 4 56 2 /\ 7 * 8 <= 56 /\ aligned_in 128 296 16 0 112 1 /\ 7 * 16 <= 112 /\
  aligned_in 128 296 8 4 8 2 /\ 8 < 7 * 8 /\ px_clauses 8 = [ClWindow 2; ClWindow 4; ClWindow 5] /\
  aligned_in 176 264 168 263 8 1 /\ 8 < 7 * 168 /\ aligned_in 176 264 8 0 56 1 /\
  Forall (fun P => match sys_new (mkFeat false false) P with
                   | Some (s, _, _) => ssd_havoc (y_c s) /\ aligned_inside P 8 4 64 2 = true
                   | None => False
                   end) [spec_2in9_v2; spec_2in7_v2].
Proof.
  repeat (split; [first [reflexivity | repeat split; discriminate]|]).
  repeat (apply Forall_cons; [vm_compute; repeat split; discriminate|]). apply Forall_nil.
Qed.

Theorem C06x_sys_epd2in9_v2 : forall ft k len x y w h s,
  aligned_inside spec_2in9_v2 x y w h = true -> len = w / 8 * h -> ssd_havoc (y_c s) ->
  exists s', sys_c06x ft spec_2in9_v2 k s (OUpdatePartial len x y w h) true len x y w h (px_clauses x) s' /\ ssd_havoc (y_c s') /\
             (w < 7 * x -> c_tainted (y_c s') = true).
Proof. exact epd2in9_v2_sys_update_partial_class. Qed.
Theorem C06x_sys_epd2in7_v2 : forall ft k len x y w h s,
  aligned_inside spec_2in7_v2 x y w h = true -> len = w / 8 * h -> ssd_havoc (y_c s) ->
  exists s', sys_c06x ft spec_2in7_v2 k s (OUpdatePartial len x y w h) true len x y w h (px_clauses x) s' /\ ssd_havoc (y_c s') /\
             (w < 7 * x -> c_tainted (y_c s') = true).
Proof. exact epd2in7_v2_sys_update_partial_class. Qed.

(** * 3. epd2in66b: the cursor is moved back to (0, 0) after the window is programmed *)
(** [zz_clauses x y] = [ClWindow 2; ClWindow 4] ++ (if x =? 0 then [] else [ClWindow 5]) ++
    (if y =? 0 then [] else [ClWindow 6]).  The data starts outside the programmed window unless
    x = 0 and y = 0.  Afterwards the entry point re-programs the window to "the full panel", again
    with exclusive ends (19, 296). *)
Theorem C06x_epd2in66b_update_partial_frame : forall k len x y w h c d,
  aligned_in 152 296 x y w h -> len = w / 8 * h -> ssd_havoc c ->
  exists c', c06x_call spec_2in66b (Epd2in66b.update_partial_frame k len x y w h) k true len x y w h d c
                       [EBurstSsd 0x24 P1 (geom_00 x y w h) [SData (DArg k 0 0 len)]] (zz_clauses x y) d c'
             /\ ssd_havoc c'
             /\ (x <> 0 \/ y <> 0 -> c_xc c' = 65535 /\ c_yc c' = 65535 /\ c_tainted c' = true)
             /\ (x = 0 -> y = 0 -> c_xc c' = len mod (w / 8 + 1) /\ c_yc c' = len / (w / 8 + 1))
             /\ c_xs c' = 0 /\ c_xe c' = 19 /\ c_ys c' = 0 /\ c_ye c' = 296.
Proof. exact epd2in66b_update_partial_frame_class. Qed.
Theorem C06x_zz_counter_outside : forall W H x y w h n,
  aligned_in W H x y w h -> x <> 0 \/ y <> 0 -> advance3 (geom_00 x y w h) n = None.
Proof. exact zz_counter_outside. Qed.
Theorem C06x_zz_counter_right : forall x y w h, x = 0 -> y = 0 -> geom_00 x y w h = geom_over x y w h.
Proof. exact zz_counter_right. Qed.
Theorem C06x_sys_epd2in66b : forall ft k len x y w h s,
  aligned_inside spec_2in66b x y w h = true -> len = w / 8 * h -> ssd_havoc (y_c s) ->
  exists s', sys_c06x ft spec_2in66b k s (OUpdatePartial len x y w h) true len x y w h (zz_clauses x y) s' /\ ssd_havoc (y_c s') /\
             (x <> 0 \/ y <> 0 -> c_tainted (y_c s') = true).
Proof. exact epd2in66b_sys_update_partial_class. Qed.
Example C06x_epd2in66b_nonvacuous :
  aligned_in 152 296 8 4 64 2 /\ zz_clauses 8 4 = [ClWindow 2; ClWindow 4; ClWindow 5; ClWindow 6] /\
  aligned_in 152 296 0 0 8 1 /\ zz_clauses 0 0 = [ClWindow 2; ClWindow 4] /\
  aligned_in 152 296 0 4 8 1 /\ zz_clauses 0 4 = [ClWindow 2; ClWindow 4; ClWindow 6] /\
  Forall (fun P => match sys_new (mkFeat false false) P with
                   | Some (s, _, _) => ssd_havoc (y_c s) /\ aligned_inside P 8 4 64 2 = true
                   | None => False
                   end) [spec_2in66b].
Proof.
  repeat (split; [first [reflexivity | repeat split; discriminate]|]).
  repeat (apply Forall_cons; [vm_compute; repeat split; discriminate|]). apply Forall_nil.
Qed.

(** * 4. UC-type panels with encoding defects *)
(** ** epd5in83b_v2: HRST / HRED bit packing *)
(** closed form: first column [hrst_5in83b x] = x/8 for x < 256, x/8 - 32 otherwise; last column
    [hred_5in83b x w] = 0 for x + w < 512, 32 otherwise; last row y + h (exclusive).
    [clauses_5in83b x w] = (if x <? 256 then [] else [ClWindow 1]) ++
    (if (x =? 0) && (w =? 8) then [] else [ClWindow 2]) ++ [ClWindow 4], once per plane. *)
Theorem C06x_epd5in83b_v2_update_partial_frame : forall k len x y w h c d,
  aligned_in 648 480 x y w h -> len = w / 8 * h -> idle c ->
  exists c', c06x_call spec_5in83b_v2 (Epd5in83b_v2.update_partial_frame k len x y w h) k true len x y w h d c
                       [EBurstUc 0x10 P1 (mkArea true (hrst_5in83b x) (hred_5in83b x w) y (y + h)) [SData (DArg k 0 0 len)];
                        EBurstUc 0x13 P2 (mkArea true (hrst_5in83b x) (hred_5in83b x w) y (y + h)) [SFill 0 (w / 8 * h)]]
                       (clauses_5in83b x w ++ clauses_5in83b x w) d c'
             /\ idle c' /\ c_partial c' = false.
Proof. exact epd5in83b_v2_update_partial_frame_class. Qed.
(** for which windows the programmed bounds equal the requested ones: the horizontal pair exactly
    for x = 0, w = 8; all four never *)
Theorem C06x_epd5in83b_v2_horizontal_ok : forall x w, clauses_5in83b x w = [ClWindow 4] <-> (x = 0 /\ w = 8).
Proof. exact clauses_5in83b_horizontal_ok. Qed.
Theorem C06x_epd5in83b_v2_never_right : forall x w, clauses_5in83b x w <> [].
Proof. exact clauses_5in83b_never_empty. Qed.
Theorem C06x_bytes_epd5in83b_v2_decode : forall x y w h,
  aligned_in 648 480 x y w h ->
  match wb_5in83b x y w h with
  | [b0; b1; b2; b3; b4; b5; b6; b7; b8] =>
      be16 b0 b1 / 8 = hrst_5in83b x /\ be16 b2 b3 / 8 = hred_5in83b x w /\ be16 b4 b5 = y /\ be16 b6 b7 = y + h
  | _ => False
  end.
Proof. exact wb_5in83b_decode. Qed.
Theorem C06x_sys_epd5in83b_v2 : forall ft k len x y w h s,
  aligned_inside spec_5in83b_v2 x y w h = true -> len = w / 8 * h -> idle (y_c s) ->
  exists s', sys_c06x ft spec_5in83b_v2 k s (OUpdatePartial len x y w h) true len x y w h
                      (clauses_5in83b x w ++ clauses_5in83b x w) s' /\ idle (y_c s').
Proof. exact epd5in83b_v2_sys_update_partial_class. Qed.
Example C06x_epd5in83b_v2_nonvacuous :
  aligned_in 648 480 8 4 64 2 /\ clauses_5in83b 8 64 = [ClWindow 2; ClWindow 4] /\
  aligned_in 648 480 640 479 8 1 /\ clauses_5in83b 640 8 = [ClWindow 1; ClWindow 2; ClWindow 4] /\
  aligned_in 648 480 0 0 8 1 /\ clauses_5in83b 0 8 = [ClWindow 4] /\
  hrst_5in83b 640 = 48 /\ hred_5in83b 640 8 = 32 /\
  Forall (fun P => match sys_new (mkFeat false false) P with
                   | Some (s, _, _) => idle (y_c s) /\ aligned_inside P 8 4 64 2 = true
                   | None => False
                   end) [spec_5in83b_v2].
Proof.
  repeat (split; [first [reflexivity | repeat split; discriminate]|]).
  repeat (apply Forall_cons; [vm_compute; repeat split; discriminate|]). apply Forall_nil.
Qed.

(** ** epd4in2 for EVERY aligned x: HRED is computed from x land 0xf8 (bit 8 of x lost) *)
(** [area_4in2 x y w h] = partial, columns x/8 .. ((x mod 256) + w)/8 - 1, rows y .. y+h-1;
    [clauses_4in2 x] = if x <? 256 then [] else [ClWindow 2] *)
Theorem C06x_epd4in2_update_partial_frame : forall k len x y w h c d,
  aligned_in 400 300 x y w h -> len = w / 8 * h -> idle c ->
  exists c', c06x_call spec_4in2 (Epd4in2.update_partial_frame k len x y w h) k true len x y w h d c
                       [EBurstUc 0x13 P2 (area_4in2 x y w h) [SData (DArg k 0 0 len)]] (clauses_4in2 x) d c'
             /\ idle c' /\ c_partial c' = false.
Proof. exact epd4in2_update_partial_frame_class. Qed.
Theorem C06x_epd4in2_update_partial_old_frame : forall k len x y w h c d,
  aligned_in 400 300 x y w h -> len = w / 8 * h -> idle c ->
  exists c', c06x_call spec_4in2 (Epd4in2.update_partial_old_frame k len x y w h) k true len x y w h d c
                       [EBurstUc 0x10 P1 (area_4in2 x y w h) [SData (DArg k 0 0 len)]] (clauses_4in2 x) d c'
             /\ idle c' /\ c_partial c' = true
             /\ mkArea true (c_px0 c') (c_px1 c') (c_py0 c') (c_py1 c') = area_4in2 x y w h.
Proof. exact epd4in2_update_partial_old_frame_class. Qed.
Theorem C06x_epd4in2_update_partial_new_frame : forall k len x y w h c d,
  aligned_in 400 300 x y w h -> len = w / 8 * h -> idle c -> c_partial c = true ->
  exists c', c06x_call spec_4in2 (Epd4in2.update_partial_new_frame k len x y w h) k true len x y w h d c
                       [EBurstUc 0x13 P2 (area_4in2 x y w h) [SData (DArg k 0 0 len)]] (clauses_4in2 x) d c'
             /\ idle c' /\ c_partial c' = false.
Proof. exact epd4in2_update_partial_new_frame_class. Qed.
Theorem C06x_epd4in2_clear_partial_frame : forall k x y w h c d,
  aligned_in 400 300 x y w h -> idle c ->
  exists c', c06x_call spec_4in2 (Epd4in2.clear_partial_frame x y w h) k false 0 x y w h d c
                       [EBurstUc 0x10 P1 (area_4in2 x y w h) [SFill (fill_4in2 d) (w / 8 * h)];
                        EBurstUc 0x13 P2 (area_4in2 x y w h) [SFill (fill_4in2 d) (w / 8 * h)]]
                       (clauses_4in2 x ++ clauses_4in2 x) d c'
             /\ idle c' /\ c_partial c' = false.
Proof. exact epd4in2_clear_partial_frame_class. Qed.
(** the class: every window with x >= 256 - there HRED = (x+w)/8 - 33 lies below HRST = x/8 *)
Theorem C06x_epd4in2_class_hi : forall x, 256 <= x -> clauses_4in2 x = [ClWindow 2].
Proof. exact clauses_4in2_hi. Qed.
Theorem C06x_epd4in2_class_lo : forall x, x < 256 -> clauses_4in2 x = [].
Proof. exact clauses_4in2_lo. Qed.
Theorem C06x_epd4in2_area_hi : forall x y w h,
  aligned_in 400 300 x y w h -> 256 <= x ->
  area_4in2 x y w h = mkArea true (x / 8) ((x + w) / 8 - 33) y (y + h - 1) /\ (x + w) / 8 - 33 < x / 8.
Proof. exact area_4in2_hi. Qed.
Theorem C06x_epd4in2_area_lo : forall x y w h, x < 256 -> area_4in2 x y w h = win_area x y w h.
Proof. exact area_4in2_lo. Qed.
Theorem C06x_sys_epd4in2 : forall ft k len x y w h s (o : op),
  o = OUpdatePartial len x y w h \/ o = OUpdatePartialOld len x y w h ->
  aligned_inside spec_4in2 x y w h = true -> len = w / 8 * h -> idle (y_c s) ->
  exists s', sys_c06x ft spec_4in2 k s o true len x y w h (clauses_4in2 x) s' /\ idle (y_c s').
Proof. exact epd4in2_sys_partial_class. Qed.
Example C06x_epd4in2_nonvacuous :
  aligned_in 400 300 264 0 8 1 /\ 256 <= 264 /\ aligned_in 400 300 392 299 8 1 /\ 256 <= 392 /\
  aligned_in 400 300 256 4 144 2 /\ 36 = 144 / 8 * 2 /\ aligned_in 400 300 248 297 8 3 /\ 248 < 256 /\
  Forall (fun P => match sys_new (mkFeat false false) P with
                   | Some (s, _, _) => idle (y_c s) /\ aligned_inside P 264 0 8 1 = true
                   | None => False
                   end) [spec_4in2].
Proof.
  repeat (split; [first [reflexivity | repeat split; discriminate]|]).
  repeat (apply Forall_cons; [vm_compute; repeat split; discriminate|]). apply Forall_nil.
Qed.

(** ** epd7in5b_v2 update_partial_frame2: window registers RIGHT for every window, half a buffer per plane *)
(** both runs are written under [win_area x y w h] (no window clause for any window);
    [clauses_7in5b len] = if len =? 1 then [ClLength 0x10 0]
                          else [ClLength 0x10 (len/2); ClLength 0x13 (len - len/2); ClPayload 0] *)
Theorem C06x_epd7in5b_v2_update_partial_frame2 : forall k len x y w h c d,
  aligned_in 800 480 x y w h -> len = w / 8 * h -> idle c ->
  exists c', c06x_call spec_7in5b_v2 (Epd7in5b_v2.update_partial_frame2 k len x y w h) k true len x y w h d c
                       [EBurstUc 0x10 P1 (win_area x y w h) [SData (DArg k 0 0 (len / 2))];
                        EBurstUc 0x13 P2 (win_area x y w h) [SData (DArg k 0 (len / 2) (len - len / 2))]]
                       (clauses_7in5b len) d c'
             /\ idle c' /\ c_partial c' = false.
Proof. exact epd7in5b_v2_update_partial_frame2_class. Qed.
Theorem C06x_epd7in5b_v2_length_clause : forall len, In (ClLength 0x10 (len / 2)) (clauses_7in5b len).
Proof. exact clauses_7in5b_length. Qed.
Theorem C06x_epd7in5b_v2_no_window_clause : forall len f, ~ In (ClWindow f) (clauses_7in5b len).
Proof. exact clauses_7in5b_no_window. Qed.
Theorem C06x_bytes_epd7in5b_v2_decode : forall x y w h,
  aligned_in 800 480 x y w h ->
  match wb_7in5b x y w h with
  | [b0; b1; b2; b3; b4; b5; b6; b7; b8] =>
      be16 b0 b1 = x /\ be16 b2 b3 = x + w - 1 /\ be16 b4 b5 = y /\ be16 b6 b7 = y + h - 1 /\ b8 = 1
  | _ => False
  end.
Proof. exact wb_7in5b_decode. Qed.
Theorem C06x_sys_epd7in5b_v2 : forall ft k len x y w h s,
  aligned_inside spec_7in5b_v2 x y w h = true -> len = w / 8 * h -> idle (y_c s) ->
  exists s', sys_c06x ft spec_7in5b_v2 k s (OUpdatePartial2 len x y w h) true len x y w h (clauses_7in5b len) s' /\ idle (y_c s').
Proof. exact epd7in5b_v2_sys_update_partial2_class. Qed.
Example C06x_epd7in5b_v2_nonvacuous :
  aligned_in 800 480 8 4 64 2 /\ 16 = 64 / 8 * 2 /\ clauses_7in5b 16 = [ClLength 0x10 8; ClLength 0x13 8; ClPayload 0] /\
  aligned_in 800 480 792 479 8 1 /\ 1 = 8 / 8 * 1 /\ clauses_7in5b 1 = [ClLength 0x10 0] /\
  Forall (fun P => match sys_new (mkFeat false false) P with
                   | Some (s, _, _) => idle (y_c s) /\ aligned_inside P 8 4 64 2 = true
                   | None => False
                   end) [spec_7in5b_v2].
Proof.
  repeat (split; [first [reflexivity | repeat split; discriminate]|]).
  repeat (apply Forall_cons; [vm_compute; repeat split; discriminate|]). apply Forall_nil.
Qed.

(** ** epd2in9d: vertical end (y+h-1) mod 256 - 1, underflow panic, retained old slice *)
(** the call returns normally iff (y + h - 1) mod 256 <> 0.  Then both runs are written under
    [area_2in9d x y w h] = partial, columns x/8 .. (x+w)/8-1, rows y .. y+h-2 (one row short); the 0x10
    run carries the slice retained from the PREVIOUS call ([old_data d], [old_len d] bytes, 0 for a
    fresh driver), the 0x13 run the buffer;
    [clauses_2in9d w h d] = [ClWindow 4] ++ (if old_len d =? w/8*h then [] else [ClLength 0x10 (old_len d)])
                            ++ [ClWindow 4];
    afterwards the driver retains THIS call's buffer ([old d' = Some (k, 0, len)]). *)
Theorem C06x_epd2in9d_update_partial_frame : forall k len x y w h c d,
  aligned_in 128 296 x y w h -> (y + h - 1) mod 256 <> 0 -> len = w / 8 * h -> idle c ->
  exists d' c', c06x_call spec_2in9d (Epd2in9d.update_partial_frame k len x y w h) k true len x y w h d c
                       [EBurstUc 0x10 P1 (area_2in9d x y w h) [SData (Epd2in9d.old_data d)];
                        EBurstUc 0x13 P2 (area_2in9d x y w h) [SData (DArg k 0 0 len)]]
                       (clauses_2in9d w h d) d' c'
             /\ idle c' /\ c_partial c' = true
             /\ old d' = Some (k, 0, len) /\ is_partial d' = true.
Proof. exact epd2in9d_update_partial_frame_class. Qed.
(** the panic condition, exactly *)
Theorem C06x_epd2in9d_update_partial_frame_panics : forall k len x y w h d,
  aligned_in 128 296 x y w h -> (y + h - 1) mod 256 = 0 ->
  fst (fst (Epd2in9d.update_partial_frame k len x y w h d)) = None /\
  snd (fst (Epd2in9d.update_partial_frame k len x y w h d)) = pre_d_2in9d d.
Proof. exact upf_2in9d_panics. Qed.
Theorem C06x_epd2in9d_update_partial_frame_returns : forall k len x y w h d,
  aligned_in 128 296 x y w h -> (y + h - 1) mod 256 <> 0 ->
  Epd2in9d.update_partial_frame k len x y w h d =
    (Some tt, set_old (Some (k, 0, len)) (pre_d_2in9d d),
     pre_items_2in9d d ++ win_items_2in9d x y w h ++
     [ICall (ICmd 0x10); ICall (IData (Epd2in9d.old_data d)); ICall (ICmd 0x13); ICall (IData (DArg k 0 0 len));
      ISet (set_old (Some (k, 0, len)) (pre_d_2in9d d))]).
Proof. exact upf_2in9d_run. Qed.
(** the wrong-length clause is absent exactly when the retained slice happens to have the window's size *)
Theorem C06x_epd2in9d_retained : forall w h d,
  clauses_2in9d w h d = [ClWindow 4; ClWindow 4] <-> old_len d = w / 8 * h.
Proof. exact clauses_2in9d_retained. Qed.
Theorem C06x_epd2in9d_old_len_fresh : forall d, old d = None -> old_len d = 0.
Proof. exact old_len_fresh. Qed.
Theorem C06x_epd2in9d_old_len_some : forall d c a l, old d = Some (c, a, l) -> old_len d = l.
Proof. exact old_len_some. Qed.
Theorem C06x_sys_epd2in9d : forall ft k len x y w h s,
  aligned_inside spec_2in9d x y w h = true -> (y + h - 1) mod 256 <> 0 -> len = w / 8 * h -> idle (y_c s) ->
  exists s', sys_c06x ft spec_2in9d k s (OUpdatePartial len x y w h) true len x y w h (clauses_2in9d w h (y_d s)) s'
             /\ idle (y_c s') /\ old (y_d s') = Some (k, 0, len).
Proof. exact epd2in9d_sys_update_partial_class. Qed.
Theorem C06x_sys_epd2in9d_panics : forall ft k len x y w h s,
  aligned_inside spec_2in9d x y w h = true -> (y + h - 1) mod 256 = 0 ->
  sys_op ft spec_2in9d k s (OUpdatePartial len x y w h) = OpPanic.
Proof. exact epd2in9d_sys_update_partial_panics. Qed.
(** both cases occur inside the panel: (8, 4, 64, 2) returns; (0, 0, 8, 1) and (0, 250, 8, 7) panic *)
Example C06x_epd2in9d_nonvacuous :
  aligned_in 128 296 8 4 64 2 /\ (4 + 2 - 1) mod 256 <> 0 /\ 16 = 64 / 8 * 2 /\
  aligned_in 128 296 0 0 8 1 /\ (0 + 1 - 1) mod 256 = 0 /\
  aligned_in 128 296 0 250 8 7 /\ (250 + 7 - 1) mod 256 = 0 /\
  clauses_2in9d 64 2 d0 = [ClWindow 4; ClLength 0x10 0; ClWindow 4] /\
  Forall (fun P => match sys_new (mkFeat false false) P with
                   | Some (s, _, _) => idle (y_c s) /\ aligned_inside P 8 4 64 2 = true /\ old (y_d s) = None
                   | None => False
                   end) [spec_2in9d].
Proof.
  repeat (split; [first [reflexivity | repeat split; discriminate]|]).
  repeat (apply Forall_cons; [vm_compute; repeat split; discriminate|]). apply Forall_nil.
Qed.

Print Assumptions C06x_epd1in54_update_partial_frame.
Print Assumptions C06x_epd1in54_v2_update_partial_frame.
Print Assumptions C06x_epd2in9_update_partial_frame.
Print Assumptions C06x_epd2in13_v2_update_partial_frame.
Print Assumptions C06x_epd2in13_v2_update_partial_frame_quick_panics.
Print Assumptions C06x_typeA_cell.
Print Assumptions C06x_typeA_first_row.
Print Assumptions C06x_typeA_rows_shifted.
Print Assumptions C06x_advance3_origin.
Print Assumptions C06x_bytes_epd1in54.
Print Assumptions C06x_bytes_typeA_decode.
Print Assumptions C06x_sys_epd1in54.
Print Assumptions C06x_sys_epd1in54_v2.
Print Assumptions C06x_sys_epd2in9.
Print Assumptions C06x_sys_epd2in13_v2.
Print Assumptions C06x_epd2in9_v2_update_partial_frame.
Print Assumptions C06x_epd2in7_v2_update_partial_frame.
Print Assumptions C06x_px_counter_outside.
Print Assumptions C06x_px_counter_inside.
Print Assumptions C06x_px_counter_right.
Print Assumptions C06x_sys_epd2in9_v2.
Print Assumptions C06x_sys_epd2in7_v2.
Print Assumptions C06x_epd2in66b_update_partial_frame.
Print Assumptions C06x_zz_counter_outside.
Print Assumptions C06x_zz_counter_right.
Print Assumptions C06x_sys_epd2in66b.
Print Assumptions C06x_epd5in83b_v2_update_partial_frame.
Print Assumptions C06x_epd5in83b_v2_horizontal_ok.
Print Assumptions C06x_epd5in83b_v2_never_right.
Print Assumptions C06x_bytes_epd5in83b_v2_decode.
Print Assumptions C06x_sys_epd5in83b_v2.
Print Assumptions C06x_epd4in2_update_partial_frame.
Print Assumptions C06x_epd4in2_update_partial_old_frame.
Print Assumptions C06x_epd4in2_update_partial_new_frame.
Print Assumptions C06x_epd4in2_clear_partial_frame.
Print Assumptions C06x_epd4in2_class_hi.
Print Assumptions C06x_epd4in2_class_lo.
Print Assumptions C06x_epd4in2_area_hi.
Print Assumptions C06x_epd4in2_area_lo.
Print Assumptions C06x_sys_epd4in2.
Print Assumptions C06x_epd7in5b_v2_update_partial_frame2.
Print Assumptions C06x_epd7in5b_v2_length_clause.
Print Assumptions C06x_epd7in5b_v2_no_window_clause.
Print Assumptions C06x_bytes_epd7in5b_v2_decode.
Print Assumptions C06x_sys_epd7in5b_v2.
Print Assumptions C06x_epd2in9d_update_partial_frame.
Print Assumptions C06x_epd2in9d_update_partial_frame_panics.
Print Assumptions C06x_epd2in9d_update_partial_frame_returns.
Print Assumptions C06x_epd2in9d_retained.
Print Assumptions C06x_epd2in9d_old_len_fresh.
Print Assumptions C06x_epd2in9d_old_len_some.
Print Assumptions C06x_sys_epd2in9d.
Print Assumptions C06x_sys_epd2in9d_panics.

(** C10 Wire framing: D/C discipline, transfer size limit and exact repeat counts.
    Statements only; every proof is [exact <lemma>]. *)
From Coq Require Import List NArith Bool.
From EPD Require Import Iface Hal HalSat HalProofs.
Import ListNotations.
Open Scope N_scope.

(** (a,c,e) For every list of transport calls and driver-state items, every buffer content, both
    write modes, every idle-delay setting, every busy behaviour and every injected fault: scanning
    the HAL events of the call from ANY previous D/C state, each SPI transfer is preceded by a D/C
    event of the same call; with D/C low it carries exactly one byte; with D/C high it carries
    between 1 and 4096 bytes. *)
Theorem C10_dc_discipline_and_size : forall cfg rho t d w,
  match expand cfg rho t d w with (_, _, _, evs) => forall dc, fst (wire dc evs) = true end.
Proof. exact expand_wire. Qed.

(** (b,d) In a fault-free world, when the call returns, the logical (D/C level, byte) stream is
    the concatenation of what each transport call is meant to send: a command byte with D/C low,
    the data bytes (resp. their per-byte expansion, resp. n copies of the fill byte) with D/C high,
    nothing for waits/reset/delays, and only repetitions of the status command for the
    command-probed wait — independent of byte-wise or block-wise writing and of the chunking. *)
Theorem C10_logical_stream : forall cfg rho t d w, ff w ->
  match expand cfg rho t d w with
  | (OOk, _, _, evs) =>
      exists ss, Forall2 (stream_ok rho) (calls t) ss /\ forall dc, lstream dc evs = concat ss
  | _ => True
  end.
Proof. exact expand_stream. Qed.

(** (e) the pieces a data slice is cut into: contiguous (their concatenation is the slice), each of
    1..4096 bytes, in both write modes and for every length. *)
Theorem C10_chunks_contiguous : forall cfg l, concat (pieces cfg l) = l.
Proof. exact pieces_concat. Qed.
Theorem C10_chunks_bounded : forall cfg l,
  Forall (fun c => (1 <= length c)%nat /\ N.of_nat (length c) <= 4096) (pieces cfg l).
Proof. exact pieces_sizes. Qed.

(** (f) a repeated fill of n bytes is D/C high followed by exactly n one-byte transfers of the value *)
Theorem C10_repeat_exact : forall v n,
  hsat (if_data_x v n) (fun w o w' e => ff w -> o = OOk /\ w' = w /\
        e = HDc true :: repeat (HSpi [v] true) (N.to_nat n)).
Proof. exact if_data_x_ff. Qed.

(** non-vacuity: a concrete call with a 4097-byte block write is cut in 4096 + 1 *)
Example C10_witness :
  map (@length N) (pieces (mkCfg false 0) (repeat 7 (N.to_nat 4097))) = [N.to_nat 4096; 1%nat].
Proof. vm_compute. reflexivity. Qed.

Print Assumptions C10_dc_discipline_and_size.
Print Assumptions C10_logical_stream.
Print Assumptions C10_chunks_contiguous.
Print Assumptions C10_chunks_bounded.
Print Assumptions C10_repeat_exact.

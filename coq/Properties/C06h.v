(** C06, history and window BOTH universally quantified.  Statements only; every proof is
    [exact <lemma of Proof/WindowsHist.v>].

    Properties/C06x.v (and C06w.v) characterise a partial entry point for EVERY aligned in-panel
    window as a single call from any controller state satisfying [ssd_havoc] / [idle].  Here the
    state hypothesis is discharged: it is checked by kernel computation on every state of the closed
    reachable set [Rof cfg] of the configuration and so holds after every protocol-respecting history
    of ANY length.  Reading guide:
    - [valid_history p h]: [h] is a list of macro steps of panel [p]'s history alphabet;
      [p_run ft P s0 h]: the state (driver fields + observer + controller state) after [h] from the
      constructed state [s0]; [end_of c s0 h] its (driver fields, controller state) pair;
    - [after_history c Q] := exists s0, fst (p_new ..) = Some s0 /\ forall h, valid_history (snd c) h -> Q (end_of c s0 h);
    - the predicates [typeA_partial], [px_partial], ... (Proof/WindowsHist.v) say: for EVERY call index
      [k], EVERY aligned in-panel window [x y w h] and buffer length [len = w/8*h], the partial update
      issued from that state returns normally and [Checks.chk_c06] reports EXACTLY the given clause list
      (see Properties/C06x.v for the clause classes). *)
From Coq Require Import List NArith Bool.
From EPD Require Import Iface Ops Panels Ctl.Ctl Spec.PSpec Spec.Checks Spec.Sys Spec.Specs Spec.Oracle Spec.Verdict
  Proof.AllPanels Proof.History Proof.Windows Proof.Havoc Proof.Windows2 Proof.WindowsHist.
Import ListNotations.
Open Scope N_scope.

(** the state hypotheses hold after every history *)
Theorem C06h_ssd_havoc_after_every_history : forall c, In c ssd_cfgs ->
  exists s0, fst (p_new (fst c) (spec_of (snd c))) = Some s0 /\
  forall h, valid_history (snd c) h -> ssd_havoc (y_c (end_of c s0 h)).
Proof. exact ssd_havoc_after_every_history. Qed.

Theorem C06h_idle_after_every_history : forall c, In c uc_cfgs ->
  exists s0, fst (p_new (fst c) (spec_of (snd c))) = Some s0 /\
  forall h, valid_history (snd c) h -> idle (y_c (end_of c s0 h)).
Proof. exact idle_after_every_history. Qed.

(** type-A SSD panels (both LUT features): after every history, EVERY aligned window is programmed
    with exclusive ends ([ClWindow 2; ClWindow 4]) and nothing else is wrong *)
Theorem C06h_epd1in54 : forall ft, In (ft, P1in54) ssd_cfgs ->
  exists s0, fst (p_new ft (spec_of P1in54)) = Some s0 /\
  forall hist, valid_history P1in54 hist ->
  forall k len x y w h, aligned_inside spec_1in54 x y w h = true -> len = w / 8 * h ->
  exists s', sys_c06x ft spec_1in54 k (end_of (ft, P1in54) s0 hist) (OUpdatePartial len x y w h) true len x y w h
                      [ClWindow 2; ClWindow 4] s' /\ ssd_havoc (y_c s').
Proof. exact epd1in54_partial_after_every_history. Qed.

Theorem C06h_epd1in54_v2 : after_history (f00, P1in54_v2) (typeA_partial f00 spec_1in54_v2).
Proof. exact epd1in54_v2_partial_after_every_history. Qed.

Theorem C06h_epd2in9 : forall ft, In (ft, P2in9) ssd_cfgs -> after_history (ft, P2in9) (typeA_partial ft spec_2in9).
Proof. exact epd2in9_partial_after_every_history. Qed.

Theorem C06h_epd2in13_v2 : forall ft, In (ft, P2in13_v2) ssd_cfgs -> after_history (ft, P2in13_v2) (partial_2in13_v2 ft).
Proof. exact epd2in13_v2_partial_after_every_history. Qed.

(** pixel-unit X counter: [px_clauses x] = exclusive ends ++ ([ClWindow 5] iff x <> 0) *)
Theorem C06h_epd2in9_v2 : after_history (f00, P2in9_v2) (px_partial f00 spec_2in9_v2).
Proof. exact epd2in9_v2_partial_after_every_history. Qed.
Theorem C06h_epd2in7_v2 : after_history (f00, P2in7_v2) (px_partial f00 spec_2in7_v2).
Proof. exact epd2in7_v2_partial_after_every_history. Qed.

(** counter (0,0): [zz_clauses x y] *)
Theorem C06h_epd2in66b : after_history (f00, P2in66b) zz_partial.
Proof. exact epd2in66b_partial_after_every_history. Qed.

(** UC-type *)
Theorem C06h_epd5in83b_v2 : after_history (f00, P5in83b_v2) partial_5in83b.
Proof. exact epd5in83b_v2_partial_after_every_history. Qed.
Theorem C06h_epd4in2 : after_history (f00, P4in2) partial_4in2.
Proof. exact epd4in2_partial_after_every_history. Qed.
Theorem C06h_epd7in5b_v2 : after_history (f00, P7in5b_v2) partial_7in5b.
Proof. exact epd7in5b_v2_partial_after_every_history. Qed.
(** epd2in9d: returns with [clauses_2in9d] unless [(y+h-1) mod 256 = 0], where it panics *)
Theorem C06h_epd2in9d : after_history (f00, P2in9d) partial_2in9d.
Proof. exact epd2in9d_partial_after_every_history. Qed.

(** the POSITIVE theorems: after every history C06 HOLDS ([chk_c06 = []]) for EVERY aligned window:
    epd4in2 (x < 256; update_partial_frame and clear_partial_frame), epd1in02 (clear_partial_frame),
    epd2in7, epd2in7b (all three partial entry points) *)
Theorem C06h_epd4in2_holds : after_history (f00, P4in2) ok_4in2.
Proof. exact epd4in2_windows_ok_after_every_history. Qed.
Theorem C06h_epd1in02_holds : after_history (f00, P1in02) ok_1in02.
Proof. exact epd1in02_windows_ok_after_every_history. Qed.
Theorem C06h_epd2in7_holds : after_history (f00, P2in7) ok_2in7.
Proof. exact epd2in7_windows_ok_after_every_history. Qed.
Theorem C06h_epd2in7b_holds : after_history (f00, P2in7b) ok_2in7b.
Proof. exact epd2in7b_windows_ok_after_every_history. Qed.

(** non-vacuity *)
Example C06h_nonvacuous : valid_history P1in54 [] /\ aligned_inside spec_1in54 8 3 16 5 = true /\
  In (f00, P1in54) ssd_cfgs /\ In (mkFeat false true, P1in54) ssd_cfgs /\ Rof (f00, P1in54) <> [].
Proof. split; [constructor|]. split; [reflexivity|]. split; [cbn; tauto|]. split; [cbn; tauto|]. discriminate. Qed.

Print Assumptions C06h_ssd_havoc_after_every_history.
Print Assumptions C06h_idle_after_every_history.
Print Assumptions C06h_epd1in54.
Print Assumptions C06h_epd1in54_v2.
Print Assumptions C06h_epd2in9.
Print Assumptions C06h_epd2in13_v2.
Print Assumptions C06h_epd2in9_v2.
Print Assumptions C06h_epd2in7_v2.
Print Assumptions C06h_epd2in66b.
Print Assumptions C06h_epd5in83b_v2.
Print Assumptions C06h_epd4in2.
Print Assumptions C06h_epd7in5b_v2.
Print Assumptions C06h_epd2in9d.
Print Assumptions C06h_epd4in2_holds.
Print Assumptions C06h_epd1in02_holds.
Print Assumptions C06h_epd2in7_holds.
Print Assumptions C06h_epd2in7b_holds.

(** C16 Rectangle algebra is exact.  Nothing but statements, each closed by [exact]. *)
From Coq Require Import NArith Bool.
From EPD Require Import Pure.Rect Pure.RectProofs.
Open Scope N_scope.

Theorem C16_intersect_total : forall a b, edges_ok a -> edges_ok b ->
  exists i, intersect a b = Some i /\ wf i /\ edges_ok i.
Proof. intros a b Ha Hb. eexists. split; [exact (intersect_defined a b Ha Hb)|].
       exact (intersect_wf a b _ Ha Hb (intersect_defined a b Ha Hb)). Qed.

Theorem C16_intersect_commutative : forall a b, edges_ok a -> edges_ok b ->
  intersect a b = intersect b a.
Proof. exact intersect_comm. Qed.

Theorem C16_intersect_idempotent : forall a, edges_ok a -> intersect a a = Some a.
Proof. exact intersect_idem. Qed.

Theorem C16_intersect_pixel_exact : forall a b i px py, edges_ok a -> edges_ok b ->
  intersect a b = Some i -> (inside i px py <-> inside a px py /\ inside b px py).
Proof. exact intersect_pixels. Qed.

Theorem C16_intersect_empty_iff_disjoint : forall a b i, edges_ok a -> edges_ok b ->
  intersect a b = Some i ->
  (is_empty i = true <-> forall px py, ~ (inside a px py /\ inside b px py)).
Proof. exact intersect_empty_iff. Qed.

Theorem C16_intersect_inside_both : forall a b i, edges_ok a -> edges_ok b ->
  intersect a b = Some i -> is_empty i = false ->
  (rx a <= rx i /\ rx i + rw i <= rx a + rw a /\ ry a <= ry i /\ ry i + rh i <= ry a + rh a) /\
  (rx b <= rx i /\ rx i + rw i <= rx b + rw b /\ ry b <= ry i /\ ry i + rh i <= ry b + rh b).
Proof. exact intersect_contained. Qed.

Theorem C16_sub_offset_exact : forall a dx dy, dx <= rx a -> dy <= ry a ->
  sub_offset a dx dy = Some (mkRect (rx a - dx) (ry a - dy) (rw a) (rh a)).
Proof. exact sub_offset_ok. Qed.

Theorem C16_sub_offset_pixels : forall a dx dy r px py, dx <= rx a -> dy <= ry a ->
  sub_offset a dx dy = Some r -> (inside r px py <-> inside a (px + dx) (py + dy)).
Proof. exact sub_offset_pixels. Qed.

(** non-vacuity: the hypotheses are met by concrete non-trivial rectangles *)
Example C16_witness :
  edges_ok (mkRect 0 0 10 10) /\ edges_ok (mkRect 6 3 10 10) /\
  intersect (mkRect 0 0 10 10) (mkRect 6 3 10 10) = Some (mkRect 6 3 4 7) /\
  intersect (mkRect 0 0 10 10) (mkRect 10 11 10 10) = Some (mkRect 10 11 0 0) /\
  sub_offset (mkRect 10 10 10 10) 10 5 = Some (mkRect 0 5 10 10).
Proof. unfold edges_ok, u32max; cbn. repeat split; reflexivity. Qed.

Print Assumptions C16_intersect_total.
Print Assumptions C16_intersect_commutative.
Print Assumptions C16_intersect_idempotent.
Print Assumptions C16_intersect_pixel_exact.
Print Assumptions C16_intersect_empty_iff_disjoint.
Print Assumptions C16_intersect_inside_both.
Print Assumptions C16_sub_offset_exact.
Print Assumptions C16_sub_offset_pixels.

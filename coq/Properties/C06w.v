(** C06 for ALL windows: partial updates program exactly the requested window and fill it exactly once.
    Statements only; every proof is [exact <lemma of Proof/Windows.v>].

    Properties/C06.v establishes C06 for the concrete windows of the history alphabets.  Here the
    window is universally quantified: for EVERY byte-aligned window (x, y, w, h) inside the panel
    ([aligned_in W H x y w h], equivalently the oracle's [aligned_inside P x y w h = true]), EVERY call
    index [k], a buffer of exactly the window's size ([len = w / 8 * h]), EVERY value [d] of the
    driver's own fields and EVERY controller state [c] that is idle (no command frame open, not in deep
    sleep: [idle c]), on the partial entry points of the UC-type panels where the property holds.

    Reading guide (definitions in Proof/Windows.v).
    - [c06_call P m k hb len x y w h d c bursts d' c']: running the driver model [m] on fields [d]
      returns normally with fields [d'] and transport calls [t]; feeding [calls t] to the controller
      specification [Ctl.ccall (ps_cp P)] from state [c] gives final state [c'] and effects [es];
      [Checks.chk_c06 P sym k hb len x y w h es = []] (the window fields 0..4 of every data run equal
      the request, every run has w/8*h bytes, a run carries the caller's buffer - symbolically, hence
      for every buffer content - or, for the clear entry points, every run is uniform; no [EStray]; no
      pattern fill); the data runs among [es] are exactly [bursts]; and [chk_stray es = []] (window
      parameters travel as parameters of the window command, never as stray data).
      Controller memory outside the window keeps its contents because in Ctl.v only data runs (and
      pattern fills, excluded) write memory, and every run is confined to its area.
    - [win_area x y w h] = partial flag set, byte columns x/8 .. (x+w)/8-1, rows y .. y+h-1.
    - [win_programmed c x y w h]: [c] is in partial mode and its window registers are [win_area x y w h].
    - [quick_agrees d c]: if the driver's refresh_mode field says Quick (1), the controller is in
      partial mode (then the epd1in02 driver does not send PartialIn again).
    - [sys_c06_ok ft P k s o hb len x y w h s']: [Sys.sys_op ft P k s o = OpOk s' es ic] with
      [chk_c06 P sym k hb len x y w h es = []].
    epd4in2 carries the extra hypothesis [x < 256]: for x >= 256 the driver loses bit 8 of x in the
    window end (known finding, [C06w_epd4in2_any_x_refuted]). *)
From Coq Require Import List NArith Bool.
From EPD Require Import Iface Ops Panels Ctl.Ctl Spec.PSpec Spec.Checks Spec.Sys Spec.Specs Spec.Oracle
  Drv.Epd4in2 Drv.Epd1in02 Drv.Epd2in7 Drv.Epd2in7b Proof.Windows.
Import ListNotations.
Open Scope N_scope.

(** ** epd4in2 *)
Theorem C06w_epd4in2_update_partial_frame : forall k len x y w h c d,
  aligned_in 400 300 x y w h -> x < 256 -> len = w / 8 * h -> idle c ->
  exists c', c06_call spec_4in2 (Epd4in2.update_partial_frame k len x y w h) k true len x y w h d c
                      [EBurstUc 0x13 P2 (win_area x y w h) [SData (DArg k 0 0 len)]] d c'
             /\ idle c' /\ c_partial c' = false.
Proof. exact epd4in2_update_partial_frame_window. Qed.
Example C06w_epd4in2_update_partial_frame_nonvacuous :
  aligned_in 400 300 248 297 8 3 /\ 248 < 256 /\ 3 = 8 / 8 * 3 /\ idle (por (ps_cp spec_4in2)).
Proof. repeat split; discriminate. Qed.

Theorem C06w_epd4in2_update_partial_old_frame : forall k len x y w h c d,
  aligned_in 400 300 x y w h -> x < 256 -> len = w / 8 * h -> idle c ->
  exists c', c06_call spec_4in2 (Epd4in2.update_partial_old_frame k len x y w h) k true len x y w h d c
                      [EBurstUc 0x10 P1 (win_area x y w h) [SData (DArg k 0 0 len)]] d c'
             /\ idle c' /\ win_programmed c' x y w h.
Proof. exact epd4in2_update_partial_old_frame_window. Qed.
Example C06w_epd4in2_update_partial_old_frame_nonvacuous :
  aligned_in 400 300 8 4 64 2 /\ 8 < 256 /\ 16 = 64 / 8 * 2 /\ idle (por (ps_cp spec_4in2)).
Proof. repeat split; discriminate. Qed.

(** the new-image half does not send PartialIn (0x91): it needs the partial mode the old-image half entered *)
Theorem C06w_epd4in2_update_partial_new_frame : forall k len x y w h c d,
  aligned_in 400 300 x y w h -> x < 256 -> len = w / 8 * h -> idle c -> c_partial c = true ->
  exists c', c06_call spec_4in2 (Epd4in2.update_partial_new_frame k len x y w h) k true len x y w h d c
                      [EBurstUc 0x13 P2 (win_area x y w h) [SData (DArg k 0 0 len)]] d c'
             /\ idle c' /\ c_partial c' = false.
Proof. exact epd4in2_update_partial_new_frame_window. Qed.
Example C06w_epd4in2_update_partial_new_frame_nonvacuous :
  let c := fst (ccall (ps_cp spec_4in2) (por (ps_cp spec_4in2)) [ICmd 0x91]) in
  aligned_in 400 300 8 4 64 2 /\ 8 < 256 /\ 16 = 64 / 8 * 2 /\ idle c /\ c_partial c = true.
Proof. repeat split; discriminate. Qed.

Theorem C06w_epd4in2_partial_pair : forall k1 k2 len x y w h c d,
  aligned_in 400 300 x y w h -> x < 256 -> len = w / 8 * h -> idle c ->
  exists c1 c2,
    c06_call spec_4in2 (Epd4in2.update_partial_old_frame k1 len x y w h) k1 true len x y w h d c
             [EBurstUc 0x10 P1 (win_area x y w h) [SData (DArg k1 0 0 len)]] d c1 /\
    c06_call spec_4in2 (Epd4in2.update_partial_new_frame k2 len x y w h) k2 true len x y w h d c1
             [EBurstUc 0x13 P2 (win_area x y w h) [SData (DArg k2 0 0 len)]] d c2 /\
    idle c2 /\ c_partial c2 = false.
Proof. exact epd4in2_partial_pair_window. Qed.
Example C06w_epd4in2_partial_pair_nonvacuous :
  aligned_in 400 300 0 0 8 1 /\ 0 < 256 /\ 1 = 8 / 8 * 1 /\ idle (por (ps_cp spec_4in2)).
Proof. repeat split; discriminate. Qed.

Theorem C06w_epd4in2_clear_partial_frame : forall k x y w h c d,
  aligned_in 400 300 x y w h -> x < 256 -> idle c ->
  exists c', c06_call spec_4in2 (Epd4in2.clear_partial_frame x y w h) k false 0 x y w h d c
                      [EBurstUc 0x10 P1 (win_area x y w h) [SFill (fill_4in2 d) (w / 8 * h)];
                       EBurstUc 0x13 P2 (win_area x y w h) [SFill (fill_4in2 d) (w / 8 * h)]] d c'
             /\ idle c' /\ c_partial c' = false.
Proof. exact epd4in2_clear_partial_frame_window. Qed.
Example C06w_epd4in2_clear_partial_frame_nonvacuous :
  aligned_in 400 300 16 297 8 3 /\ 16 < 256 /\ idle (por (ps_cp spec_4in2)).
Proof. repeat split; discriminate. Qed.

(** without [x < 256] the statement is false of the model: witness x = 264 ([ClWindow 2]) *)
Theorem C06w_epd4in2_any_x_refuted : ~ epd4in2_update_partial_frame_window_any_x_stmt.
Proof. exact epd4in2_update_partial_frame_window_any_x_refuted. Qed.
Theorem C06w_epd4in2_x264_clause :
  match Epd4in2.update_partial_frame 1 1 264 0 8 1 d0 with
  | (Some _, _, t) => chk_c06 spec_4in2 sym 1 true 1 264 0 8 1 (snd (ccall (ps_cp spec_4in2) (por (ps_cp spec_4in2)) (calls t)))
  | _ => []
  end = [ClWindow 2].
Proof. exact epd4in2_update_partial_frame_x264. Qed.
Example C06w_epd4in2_any_x_witness_in_scope :
  aligned_in 400 300 264 0 8 1 /\ 1 = 8 / 8 * 1 /\ idle (por (ps_cp spec_4in2)).
Proof. repeat split; discriminate. Qed.

(** ** epd1in02 *)
Theorem C06w_epd1in02_update_partial_old_frame : forall k len x y w h c d,
  aligned_in 80 128 x y w h -> len = w / 8 * h -> idle c -> quick_agrees d c ->
  exists d' c', c06_call spec_1in02 (Epd1in02.update_partial_old_frame k len x y w h) k true len x y w h d c
                      [EBurstUc 0x10 P1 (win_area x y w h) [SData (DArg k 0 0 len)]] d' c'
             /\ idle c' /\ win_programmed c' x y w h /\ refresh d' = 1.
Proof. exact epd1in02_update_partial_old_frame_window. Qed.
Example C06w_epd1in02_update_partial_old_frame_nonvacuous :
  aligned_in 80 128 8 4 64 2 /\ 16 = 64 / 8 * 2 /\ idle (por (ps_cp spec_1in02)) /\ quick_agrees d0 (por (ps_cp spec_1in02)).
Proof. repeat split; discriminate. Qed.

(** the new-image half sends no window: it fills the window the old-image half programmed *)
Theorem C06w_epd1in02_update_partial_new_frame : forall k len x y w h c d,
  aligned_in 80 128 x y w h -> len = w / 8 * h -> idle c -> win_programmed c x y w h ->
  exists c', c06_call spec_1in02 (Epd1in02.update_partial_new_frame k len x y w h) k true len x y w h d c
                      [EBurstUc 0x13 P2 (win_area x y w h) [SData (DArg k 0 0 len)]] d c'
             /\ idle c' /\ win_programmed c' x y w h.
Proof. exact epd1in02_update_partial_new_frame_window. Qed.
Example C06w_epd1in02_update_partial_new_frame_nonvacuous :
  let c := fst (ccall (ps_cp spec_1in02) (por (ps_cp spec_1in02)) [ICmd 0x91; ICmd 0x90; IData (DLit [8; 71; 4; 5; 0])]) in
  aligned_in 80 128 8 4 64 2 /\ 16 = 64 / 8 * 2 /\ idle c /\ win_programmed c 8 4 64 2.
Proof. repeat split; discriminate. Qed.

Theorem C06w_epd1in02_partial_pair : forall k1 k2 len x y w h c d,
  aligned_in 80 128 x y w h -> len = w / 8 * h -> idle c -> quick_agrees d c ->
  exists d1 c1 c2,
    c06_call spec_1in02 (Epd1in02.update_partial_old_frame k1 len x y w h) k1 true len x y w h d c
             [EBurstUc 0x10 P1 (win_area x y w h) [SData (DArg k1 0 0 len)]] d1 c1 /\
    c06_call spec_1in02 (Epd1in02.update_partial_new_frame k2 len x y w h) k2 true len x y w h d1 c1
             [EBurstUc 0x13 P2 (win_area x y w h) [SData (DArg k2 0 0 len)]] d1 c2 /\
    idle c2 /\ win_programmed c2 x y w h /\ quick_agrees d1 c2.
Proof. exact epd1in02_partial_pair_window. Qed.
Example C06w_epd1in02_partial_pair_nonvacuous :
  aligned_in 80 128 72 127 8 1 /\ 1 = 8 / 8 * 1 /\ idle (por (ps_cp spec_1in02)) /\ quick_agrees d0 (por (ps_cp spec_1in02)).
Proof. repeat split; discriminate. Qed.

Theorem C06w_epd1in02_clear_partial_frame : forall k x y w h c d,
  aligned_in 80 128 x y w h -> idle c ->
  exists d' c', c06_call spec_1in02 (Epd1in02.clear_partial_frame x y w h) k false 0 x y w h d c
                      [EBurstUc 0x10 P1 (win_area x y w h) [SFill (Epd1in02.not8 (fill_1in02 d)) (w / 8 * h)];
                       EBurstUc 0x13 P2 (win_area x y w h) [SFill (fill_1in02 d) (w / 8 * h)]] d' c'
             /\ idle c' /\ c_partial c' = false /\ refresh d' = 0.
Proof. exact epd1in02_clear_partial_frame_window. Qed.
Example C06w_epd1in02_clear_partial_frame_nonvacuous :
  aligned_in 80 128 72 127 8 1 /\ idle (por (ps_cp spec_1in02)).
Proof. repeat split; discriminate. Qed.

(** ** epd2in7 / epd2in7b *)
Theorem C06w_epd2in7_update_partial_frame : forall k len x y w h c d,
  aligned_in 176 264 x y w h -> len = w / 8 * h -> idle c ->
  exists c', c06_call spec_2in7 (Epd2in7.update_partial_frame k len x y w h) k true len x y w h d c
                      [EBurstUc 0x14 P1 (win_area x y w h) [SData (DArg k 0 0 len)]] d c'
             /\ idle c'.
Proof. exact epd2in7_update_partial_frame_window. Qed.
Example C06w_epd2in7_update_partial_frame_nonvacuous :
  aligned_in 176 264 168 263 8 1 /\ 1 = 8 / 8 * 1 /\ idle (por (ps_cp spec_2in7)).
Proof. repeat split; discriminate. Qed.

Theorem C06w_epd2in7b_update_partial_frame : forall k len x y w h c d,
  aligned_in 176 264 x y w h -> len = w / 8 * h -> idle c ->
  exists c', c06_call spec_2in7b (Epd2in7b.update_partial_frame k len x y w h) k true len x y w h d c
                      [EBurstUc 0x14 P1 (win_area x y w h) [SEach BNot (DArg k 0 0 len)]] d c'
             /\ idle c'.
Proof. exact epd2in7b_update_partial_frame_window. Qed.
Theorem C06w_epd2in7b_update_partial_achromatic_frame : forall k len x y w h c d,
  aligned_in 176 264 x y w h -> len = w / 8 * h -> idle c ->
  exists c', c06_call spec_2in7b (Epd2in7b.update_partial_achromatic_frame k len x y w h) k true len x y w h d c
                      [EBurstUc 0x14 P1 (win_area x y w h) [SEach BNot (DArg k 0 0 len)]] d c'
             /\ idle c'.
Proof. exact epd2in7b_update_partial_achromatic_frame_window. Qed.
Theorem C06w_epd2in7b_update_partial_chromatic_frame : forall k len x y w h c d,
  aligned_in 176 264 x y w h -> len = w / 8 * h -> idle c ->
  exists c', c06_call spec_2in7b (Epd2in7b.update_partial_chromatic_frame k len x y w h) k true len x y w h d c
                      [EBurstUc 0x15 P2 (win_area x y w h) [SEach BNot (DArg k 0 0 len)]] d c'
             /\ idle c'.
Proof. exact epd2in7b_update_partial_chromatic_frame_window. Qed.
Example C06w_epd2in7b_nonvacuous :
  aligned_in 176 264 16 261 8 3 /\ 3 = 8 / 8 * 3 /\ idle (por (ps_cp spec_2in7b)).
Proof. repeat split; discriminate. Qed.

(** ** the same, as one [Sys.sys_op] step under the oracle's precondition [aligned_inside] *)
Theorem C06w_sys_epd4in2_update_partial : forall ft k len x y w h s,
  aligned_inside spec_4in2 x y w h = true -> x < 256 -> len = w / 8 * h -> idle (y_c s) ->
  exists s', sys_c06_ok ft spec_4in2 k s (OUpdatePartial len x y w h) true len x y w h s'
             /\ idle (y_c s') /\ c_partial (y_c s') = false.
Proof. exact epd4in2_sys_update_partial. Qed.
Theorem C06w_sys_epd4in2_partial_pair : forall ft k1 k2 len x y w h s,
  aligned_inside spec_4in2 x y w h = true -> x < 256 -> len = w / 8 * h -> idle (y_c s) ->
  exists s1 s2,
    sys_c06_ok ft spec_4in2 k1 s (OUpdatePartialOld len x y w h) true len x y w h s1 /\
    sys_c06_ok ft spec_4in2 k2 s1 (OUpdatePartialNew len x y w h) true len x y w h s2 /\
    idle (y_c s2) /\ c_partial (y_c s2) = false.
Proof. exact epd4in2_sys_partial_pair. Qed.
Theorem C06w_sys_epd4in2_clear_partial : forall ft k x y w h s,
  aligned_inside spec_4in2 x y w h = true -> x < 256 -> idle (y_c s) ->
  exists s', sys_c06_ok ft spec_4in2 k s (OClearPartial x y w h) false 0 x y w h s'
             /\ idle (y_c s') /\ c_partial (y_c s') = false.
Proof. exact epd4in2_sys_clear_partial. Qed.
Theorem C06w_sys_epd1in02_partial_pair : forall ft k1 k2 len x y w h s,
  aligned_inside spec_1in02 x y w h = true -> len = w / 8 * h -> idle (y_c s) -> quick_agrees (y_d s) (y_c s) ->
  exists s1 s2,
    sys_c06_ok ft spec_1in02 k1 s (OUpdatePartialOld len x y w h) true len x y w h s1 /\
    sys_c06_ok ft spec_1in02 k2 s1 (OUpdatePartialNew len x y w h) true len x y w h s2 /\
    idle (y_c s2) /\ quick_agrees (y_d s2) (y_c s2).
Proof. exact epd1in02_sys_partial_pair. Qed.
Theorem C06w_sys_epd1in02_clear_partial : forall ft k x y w h s,
  aligned_inside spec_1in02 x y w h = true -> idle (y_c s) ->
  exists s', sys_c06_ok ft spec_1in02 k s (OClearPartial x y w h) false 0 x y w h s'
             /\ idle (y_c s') /\ quick_agrees (y_d s') (y_c s').
Proof. exact epd1in02_sys_clear_partial. Qed.
Theorem C06w_sys_epd2in7_update_partial : forall ft k len x y w h s,
  aligned_inside spec_2in7 x y w h = true -> len = w / 8 * h -> idle (y_c s) ->
  exists s', sys_c06_ok ft spec_2in7 k s (OUpdatePartial len x y w h) true len x y w h s' /\ idle (y_c s').
Proof. exact epd2in7_sys_update_partial. Qed.
Theorem C06w_sys_epd2in7b_update_partial : forall ft k len x y w h s (o : op),
  o = OUpdatePartial len x y w h \/ o = OUpdatePartialAchromatic len x y w h \/ o = OUpdatePartialChromatic len x y w h ->
  aligned_inside spec_2in7b x y w h = true -> len = w / 8 * h -> idle (y_c s) ->
  exists s', sys_c06_ok ft spec_2in7b k s o true len x y w h s' /\ idle (y_c s').
Proof. exact epd2in7b_sys_update_partial. Qed.
(** the freshly constructed system of each of the four panels satisfies the hypotheses on [s] *)
Example C06w_sys_nonvacuous :
  Forall (fun P => match sys_new (mkFeat false false) P with
                   | Some (s, _, _) => idle (y_c s) /\ quick_agrees (y_d s) (y_c s) /\
                                       aligned_inside P 8 4 64 2 = true
                   | None => False
                   end) [spec_4in2; spec_1in02; spec_2in7; spec_2in7b].
Proof. repeat (apply Forall_cons; [vm_compute; repeat split; discriminate|]). apply Forall_nil. Qed.

(** ** byte-level window lemmas: the literal bytes sent after the window command decode, under the
       family's layout (big endian, columns / 8), to origin (x, y) and inclusive end / extent *)
Theorem C06w_bytes_epd4in2_shift_display : forall x y w h d,
  aligned_in 400 300 x y w h -> x < 256 ->
  Epd4in2.shift_display x y w h d = (Some tt, d, map lit1 (wb_4in2 x y w h)).
Proof. exact shift_display_run. Qed.
Theorem C06w_bytes_epd4in2_decode : forall x y w h,
  aligned_in 400 300 x y w h -> x < 256 ->
  match wb_4in2 x y w h with
  | [b0; b1; b2; b3; b4; b5; b6; b7; b8] =>
      be16 b0 b1 = x /\ be16 b2 b3 = x + w - 1 /\ be16 b4 b5 = y /\ be16 b6 b7 = y + h - 1 /\ b8 = 1
  | _ => False
  end.
Proof. exact wb_4in2_decode. Qed.
Theorem C06w_bytes_epd1in02_decode : forall x y w h,
  aligned_in 80 128 x y w h -> wb_1in02 x y w h = [x; x + w - 1; y; y + h - 1; 0].
Proof. exact wb_1in02_decode. Qed.
Theorem C06w_bytes_epd2in7_decode : forall x y w h,
  aligned_in 176 264 x y w h ->
  match wb_2in7 x y w h with
  | [b0; b1; b2; b3; b4; b5; b6; b7] => be16 b0 b1 = x /\ be16 b2 b3 = y /\ be16 b4 b5 = w /\ be16 b6 b7 = h
  | _ => False
  end.
Proof. exact wb_2in7_decode. Qed.
Theorem C06w_bytes_epd2in7b_send_window : forall x y w h d,
  Epd2in7b.send_window x y w h d = (Some tt, d, map lit1 (wb_2in7 x y w h)).
Proof. exact send_window_2in7b_run. Qed.
Example C06w_bytes_nonvacuous :
  aligned_in 400 300 248 299 8 1 /\ 248 < 256 /\ aligned_in 80 128 72 127 8 1 /\ aligned_in 176 264 168 263 8 1.
Proof. repeat split; discriminate. Qed.

Print Assumptions C06w_epd4in2_update_partial_frame.
Print Assumptions C06w_epd4in2_update_partial_old_frame.
Print Assumptions C06w_epd4in2_update_partial_new_frame.
Print Assumptions C06w_epd4in2_partial_pair.
Print Assumptions C06w_epd4in2_clear_partial_frame.
Print Assumptions C06w_epd4in2_any_x_refuted.
Print Assumptions C06w_epd4in2_x264_clause.
Print Assumptions C06w_epd1in02_update_partial_old_frame.
Print Assumptions C06w_epd1in02_update_partial_new_frame.
Print Assumptions C06w_epd1in02_partial_pair.
Print Assumptions C06w_epd1in02_clear_partial_frame.
Print Assumptions C06w_epd2in7_update_partial_frame.
Print Assumptions C06w_epd2in7b_update_partial_frame.
Print Assumptions C06w_epd2in7b_update_partial_achromatic_frame.
Print Assumptions C06w_epd2in7b_update_partial_chromatic_frame.
Print Assumptions C06w_sys_epd4in2_update_partial.
Print Assumptions C06w_sys_epd4in2_partial_pair.
Print Assumptions C06w_sys_epd4in2_clear_partial.
Print Assumptions C06w_sys_epd1in02_partial_pair.
Print Assumptions C06w_sys_epd1in02_clear_partial.
Print Assumptions C06w_sys_epd2in7_update_partial.
Print Assumptions C06w_sys_epd2in7b_update_partial.
Print Assumptions C06w_bytes_epd4in2_shift_display.
Print Assumptions C06w_bytes_epd4in2_decode.
Print Assumptions C06w_bytes_epd1in02_decode.
Print Assumptions C06w_bytes_epd2in7_decode.
Print Assumptions C06w_bytes_epd2in7b_send_window.

(** C15 The four-controller 12.48in panel: tiling of window writes across S2 | M2 / M1 | S1, chip
    select and data/command discipline, partial-window blocks, set_mode registers, fail-stop.

    Statements only; every proof is [exact <lemma>].  The vocabulary ([pstate], [decode], [wire],
    [xfers], [chip_view], [owner], [pw_fields], [chip_expect] ...) is that of Big/Spec.v, which does
    not mention the driver's code; the driver is Big/Model.v ([exec], [call]). *)
From Coq Require Import List NArith Bool Lia.
From EPD Require Import Big.Model Big.Spec Big.Pins Big.Mode Big.Window Big.Tiling Big.FailStop.
Import ListNotations.
Open Scope N_scope.

(** * A. Chip selects and D/C *)

(** A1. Every public method, entered with the lines released ([control_state] = 0), whatever its
    arguments: when it returns (does not panic) the trace leaves all four chip selects high and
    both D/C lines low, and [control_state] is 0 again. *)
Theorem C15_pins_released_after_call : forall k o r cs1 t,
  exec k o 0 = (r, cs1, t) -> r <> None ->
  pins_after released t = released /\ cs1 = 0 /\ marker_after 0 t = 0.
Proof. exact released_after_call. Qed.

(** A2 + A3. Every method but [get_status], whatever its arguments, panicking or not: at every
    [SpiBus::write] the six lines are exactly the decoding of the [control_state] marker in force
    (bits 0..3 = M1 S1 M2 S2 selected, bit 4 = both D/C lines) - so the lines are driven before the
    transfer they qualify - and a transfer with D/C low is a single literal byte (a command):
    caller data never goes out as a command.  There is no [SpiBus::read]. *)
Theorem C15_pins_driven_before_transfer : forall k o r cs1 t,
  o <> OGetStatus -> exec k o 0 = (r, cs1, t) ->
  Forall (fun x : pstate * N * dexp =>
            fst (fst x) = decode (snd (fst x)) /\
            (p_dc1 (fst (fst x)) = false -> exists b, snd x = DLit [b]))
         (xfers released 0 t) /\
  reads released t = [].
Proof. exact pins_driven_before_transfer. Qed.

(** A2, the exception: [get_status] drives the lines by hand under the marker 0xFF.  Exactly one
    chip select is low during each of its four command writes (D/C low) and each of its four
    one-byte reads (that controller's D/C line high, the other one low); released afterwards. *)
Theorem C15_get_status_pins : forall k,
  exists t, exec k OGetStatus 0 = (Some KStatus, 0, t) /\
    pins_after released t = released /\ marker_after 0 t = 0 /\
    xfers released 0 t =
      [ (sel [M1] false, 0xFF, DLit [0x71]); (sel [S1] false, 0xFF, DLit [0x71]);
        (sel [M2] false, 0xFF, DLit [0x71]); (sel [S2] false, 0xFF, DLit [0x71]) ] /\
    reads released t =
      [ (mkP false true true true true false, 1); (mkP true false true true true false, 1);
        (mkP true true false true false true, 1); (mkP true true true false false true, 1) ].
Proof. exact get_status_trace. Qed.

(** A3. [cmd chips c] from any state in which the lines agree with [control_state]: one write of
    the command byte with exactly [chips] selected and both D/C low. *)
Theorem C15_cmd_dc_low : forall chips c cs, chips < 16 ->
  exists t, cmd chips c cs = (Some tt, chips, t) /\
    wire (decode cs) t = [(decode chips, DLit [c])] /\
    p_dc1 (decode chips) = false /\ p_dc2 (decode chips) = false /\
    pins_after (decode cs) t = decode chips.
Proof. exact cmd_dc_low. Qed.

(** A3. data ([spi_write (chips | CS_DATA) d]): one write with the same controllers selected and
    both D/C high. *)
Theorem C15_data_dc_high : forall chips d cs,
  exists t, spi_write (N.lor chips CS_DATA) d cs = (Some tt, N.lor chips CS_DATA, t) /\
    wire (decode cs) t = [(decode (N.lor chips CS_DATA), d)] /\
    decode (N.lor chips CS_DATA) =
      mkP (p_m1 (decode chips)) (p_s1 (decode chips)) (p_m2 (decode chips)) (p_s2 (decode chips))
          true true /\
    pins_after (decode cs) t = decode (N.lor chips CS_DATA).
Proof. exact data_dc_high. Qed.

(** * B. Tiling exactness *)

(** [owner] (the specification's notion of which controller a panel byte belongs to) is the
    controller whose rectangle contains the byte. *)
Theorem C15_owner_geometry : forall X Y c, X < 163 -> Y < 984 ->
  (owner X Y = c <->
   chip_x0 c <= 8 * X /\ 8 * X < chip_x0 c + chip_w c /\
   chip_y0 c <= Y /\ Y < chip_y0 c + chip_h c).
Proof. exact owner_geometry. Qed.

(** B. [write_window_data] for every 8-aligned non-empty window inside 1304 x 984, a buffer of [nr]
    >= 1 whole window rows, any data-start command [tc], entered in any state [cs] in which the
    lines agree with [control_state]: it does not panic; each controller sees exactly
    [chip_expect]: nothing at all if the window does not touch it, otherwise the data-start command
    with D/C low followed, for the window rows [r] that cross it in increasing order, by the slice
    [DArg k 0 ((r mod nr) * (w/8) + col_start) part_bytes] of the caller's buffer with D/C high;
    every transfer goes out with exactly one controller selected and both D/C lines alike; no read. *)
Theorem C15_window_data_tiling : forall k tc win nr cs,
  window_ok win -> 0 < nr ->
  exists cs' t,
    write_window_data k tc win (nr * (rw win / 8)) cs = (Some tt, cs', t) /\
    (forall c, chip_view c (wire (decode cs) t) = chip_expect k tc win nr c) /\
    Forall (fun pe : pstate * dexp => nsel (fst pe) = 1%nat /\ p_dc1 (fst pe) = p_dc2 (fst pe))
           (wire (decode cs) t) /\
    reads (decode cs) t = [] /\
    pins_after (decode cs) t = decode cs' /\ marker_after cs t = cs'.
Proof. exact write_window_data_tiling. Qed.

(** a controller the window does not touch: no data-start command, no data *)
Theorem C15_untouched_chip_silent : forall k tc win nr c,
  part_nonempty win c = false -> chip_expect k tc win nr c = [].
Proof. exact untouched_chip_silent. Qed.

(** B, byte level (1): window byte (row [r], byte column [j]) is in the data stream of the
    controller that owns panel byte (x/8 + j, y + r), at the row-major position of that byte inside
    the controller's share of the window, and it is byte [(r mod nr) * (w/8) + j] of the buffer. *)
Theorem C15_every_window_byte_delivered : forall k tc win nr r j,
  window_ok win -> 0 < nr -> r < rh win -> j < rw win / 8 ->
  let c := owner (rx win / 8 + j) (ry win + r) in
  part_nonempty win c = true /\
  first_row win c <= r /\ r - first_row win c < part_rows win c /\
  col_start win c <= j /\ j - col_start win c < part_bytes win c /\
  nth_error (data_offsets (chip_expect k tc win nr c))
            (N.to_nat ((r - first_row win c) * part_bytes win c + (j - col_start win c)))
    = Some ((r mod nr) * (rw win / 8) + j).
Proof. exact byte_delivery. Qed.

(** B, byte level (2): conversely the [i]-th data byte a controller receives is the window byte at
    row-major position [i] of its share, which that controller owns. *)
Theorem C15_every_delivered_byte_owned : forall k tc win nr c i,
  window_ok win -> 0 < nr ->
  part_nonempty win c = true -> i < part_rows win c * part_bytes win c ->
  let r := first_row win c + i / part_bytes win c in
  let j := col_start win c + i mod part_bytes win c in
  nth_error (data_offsets (chip_expect k tc win nr c)) (N.to_nat i)
    = Some ((r mod nr) * (rw win / 8) + j) /\
  r < rh win /\ j < rw win / 8 /\ owner (rx win / 8 + j) (ry win + r) = c.
Proof. exact delivered_bytes. Qed.

(** B, byte level (3): exactly once - a controller receives rows x bytes of its share, and the
    four shares add up to the h * (w/8) bytes of the window. *)
Theorem C15_delivered_count : forall k tc win nr c,
  length (data_offsets (chip_expect k tc win nr c)) =
  N.to_nat (if part_nonempty win c then part_rows win c * part_bytes win c else 0).
Proof. exact data_count. Qed.

Theorem C15_shares_add_up : forall win, window_ok win ->
  fold_right N.add 0 (map (fun c => if part_nonempty win c then part_rows win c * part_bytes win c else 0)
                          all_chips) = rh win * (rw win / 8).
Proof. exact total_count. Qed.

(** B for the public full-frame methods ([plane] = false: write_data1 / 0x10, true: write_data2 /
    0x13), buffer of [nr] >= 1 rows of 163 bytes, entered released: returns normally, released
    again, each controller sees exactly its share, one controller at a time. *)
Theorem C15_full_frame_tiling : forall k nr (plane : bool), 0 < nr ->
  exists t,
    exec k (if plane then OWriteData2 (nr * 163) else OWriteData1 (nr * 163)) 0 = (Some KUnit, 0, t) /\
    (forall c, chip_view c (wire released t) =
               chip_expect k (if plane then 0x13 else 0x10) (mkRect 0 0 1304 984) nr c) /\
    Forall (fun pe : pstate * dexp => nsel (fst pe) = 1%nat /\ p_dc1 (fst pe) = p_dc2 (fst pe))
           (wire released t) /\
    reads released t = [] /\ pins_after released t = released.
Proof. exact write_data_full_tiling. Qed.

(** B + C for the public partial methods: every controller sees PartialIn (0x91), PartialWindow
    (0x90) with its own 9-byte block, its share of the data (nothing if untouched), PartialOut
    (0x92); data (D/C high) only ever with exactly one controller selected. *)
Theorem C15_partial_write_tiling : forall k nr (plane : bool) win, window_ok win -> 0 < nr ->
  exists (blk : chip -> list N) t,
    exec k (if plane then OWriteData2Partial win (nr * (rw win / 8))
            else OWriteData1Partial win (nr * (rw win / 8))) 0 = (Some KUnit, 0, t) /\
    (forall c, pw_encodes (blk c) (pw_fields win c)) /\
    (forall c, chip_view c (wire released t) =
               [(false, DLit [0x91]); (false, DLit [0x90]); (true, DLit (blk c))] ++
               chip_expect k (if plane then 0x13 else 0x10) win nr c ++ [(false, DLit [0x92])]) /\
    Forall (fun pe : pstate * dexp =>
              p_dc1 (fst pe) = p_dc2 (fst pe) /\ (p_dc1 (fst pe) = true -> nsel (fst pe) = 1%nat))
           (wire released t) /\
    reads released t = [] /\ pins_after released t = released.
Proof. exact write_data_partial_tiling. Qed.

(** * C. Partial-window blocks *)

(** [setup_partial_windows] for every window inside the panel (alignment not needed), from any
    state in which the lines agree with [control_state]: never panics; S2, M2, M1, S1 in turn get
    0x90 (D/C low) and a 9-byte block (D/C high), alone on the bus; the block of controller [c]
    encodes [pw_fields win c]: big-endian HRST, HRED, VRST, VRED then 0x01 with
    HRST = chip_w - local_x - local_w on the mirrored S2 (648) / M2 (656) and local_x on M1 / S1,
    HRED = HRST + local_w - 1, VRST = local_y, VRED = local_y + local_h - 1; the fixed off-screen
    block [0;0;0xFF;0xFF;0;0;0xFF;0xFF;1] exactly when the window does not touch the controller. *)
Theorem C15_partial_window_blocks : forall win cs, window_inside win ->
  exists (blk : chip -> list N) (t : list bev),
    setup_partial_windows win cs = (Some tt, N.lor CS_S1 CS_DATA, t) /\
    wire (decode cs) t =
      flat_map (fun c => [(sel [c] false, DLit [0x90]); (sel [c] true, DLit (blk c))]) all_chips /\
    pins_after (decode cs) t = sel [S1] true /\
    forall c, pw_encodes (blk c) (pw_fields win c).
Proof. exact setup_partial_windows_wire. Qed.

(** * D. set_mode, all 16 configurations *)
Theorem C15_set_mode_bytes : forall (k : N) (kw r : bool) (bd : border) (ext : bool),
  let ddx := match r, kw with
             | false, true => 0
             | false, false => 1
             | true, true => 2
             | true, false => 3
             end in
  let bdv := match N.odd ddx, bd with
             | false, LUTBD => 0 | false, LUTR => 1 | false, LUTW => 2 | false, LUTK => 3
             | true, LUTK => 0 | true, LUTW => 1 | true, LUTR => 2 | true, LUTBD => 3
             end in
  let reg := N.shiftl (if ext then 1 else 0) 5 in
  exists t, exec k (OSetMode (mkConfig kw r bd ext)) 0 = (Some KUnit, 0, t) /\
    pins_after released t = released /\
    reads released t = [] /\
    wire released t =
      [ (sel [M1] false, DLit [0x00]); (sel [M1] true, DLit [N.lor reg 0x0F]);
        (sel [S1] false, DLit [0x00]); (sel [S1] true, DLit [N.lor reg 0x0F]);
        (sel [M2] false, DLit [0x00]); (sel [M2] true, DLit [N.lor reg 0x03]);
        (sel [S2] false, DLit [0x00]); (sel [S2] true, DLit [N.lor reg 0x03]);
        (sel [M1; S1; M2; S2] false, DLit [0x50]);
        (sel [M1; S1; M2; S2] true, DLit [N.lor (N.shiftl bdv 4) ddx; 0x07]) ].
Proof. exact set_mode_bytes. Qed.

(** * E. Faults *)

(** E1. Expansion of ANY trace against ANY world stops at the failing write: on [OErr] the HAL
    events end with the failed write, nothing failed before it, and it is write number j+1 when
    the fault budget is [Some j]; on every other outcome no write failed. *)
Theorem C15_fail_stop : forall w cs t,
  match bexpand w cs t with
  | (out, _, _, _, _, evs) =>
      match out with
      | OErr => exists pre e j, evs = pre ++ [HWrite e false] /\
                                forallb (fun e => negb (is_failed_write e)) pre = true /\
                                w_fault w = Some j /\
                                length (filter is_write pre) = N.to_nat j
      | _ => forallb (fun e => negb (is_failed_write e)) evs = true /\
             match w_fault w with
             | Some j => (length (filter is_write evs) <= N.to_nat j)%nat
             | None => True
             end
      end
  end.
Proof. exact bexpand_fail_stop. Qed.

(** E2, DEFECT.  The wish "a call that returns Err leaves the lines released" is FALSE: the error
    path of [spi_write] (the [?]) skips [flush]. *)
Theorem C15_release_after_error_refuted :
  ~ (forall k o j w res cs1 w1 evs,
       call k o (Some j) 0 w = (res, cs1, w1, evs) -> res = BRErr ->
       hpins_after released evs = released /\ cs1 = 0).
Proof. exact release_after_error_refuted. Qed.

(** witnesses: power_off whose only write fails leaves all four controllers selected; a
    full-frame write_data1 whose first write fails leaves S2 selected; when the write of its third
    row fails, S2 selected with D/C high. *)
Theorem C15_release_after_error_witnesses :
  (exists w1 evs, call 0 OPowerOff (Some 0) 0 idle_world = (BRErr, 15, w1, evs) /\
                  hpins_after released evs = sel [M1; S1; M2; S2] false) /\
  (exists w1 evs, call 0 (OWriteData1 (984 * 163)) (Some 0) 0 idle_world = (BRErr, 8, w1, evs) /\
                  hpins_after released evs = sel [S2] false) /\
  (exists w1 evs, call 0 (OWriteData1 (984 * 163)) (Some 3) 0 idle_world = (BRErr, 24, w1, evs) /\
                  hpins_after released evs = sel [S2] true).
Proof.
  exact (conj release_after_error_witness_power_off
           (conj release_after_error_witness_write_data release_after_error_witness_write_data_row)).
Qed.

(** E2, a consequence.  [get_status] assumes released lines (it only sets the marker 0xFF): entered
    after a failed call that left all four controllers selected, its four writes and its four
    status reads happen with 4, 3, 2 and 1 controllers selected (MISO contention). *)
Theorem C15_get_status_after_error_contention : forall k,
  exists t, exec k OGetStatus 15 = (Some KStatus, 0, t) /\
    map (fun x => nsel (fst (fst x))) (xfers (decode 15) 15 t) = [4%nat; 3%nat; 2%nat; 1%nat] /\
    map (fun x => nsel (fst x)) (reads (decode 15) t) = [4%nat; 3%nat; 2%nat; 1%nat] /\
    pins_after (decode 15) t = released.
Proof. exact get_status_after_error_contention. Qed.

(** E2, what does hold.  For every method but get_status, every argument, every world, every fault
    index (or none), every entry state in which the lines agree with [control_state]: when the call
    returns Ok or Err the lines still agree with [control_state] ... *)
Theorem C15_consistent_after_error : forall k o fault cs w res cs1 w1 evs,
  o <> OGetStatus ->
  call k o fault cs w = (res, cs1, w1, evs) ->
  res = BRErr \/ (exists v, res = BROk v) ->
  hpins_after (decode cs) evs = decode cs1.
Proof. exact consistent_after_call. Qed.

(** ... and from any such state every later call that completes (other than the three that never
    touch the bus through [spi_write]) releases the lines. *)
Theorem C15_recovery_after_error : forall k o cs r cs' t,
  o <> OGetStatus -> o <> OGetBusy -> o <> OIsBusy ->
  exec k o cs = (r, cs', t) -> r <> None ->
  pins_after (decode cs) t = released /\ cs' = 0.
Proof. exact recovery_after_error. Qed.

(** * Non-vacuity *)

(** a 16 x 8 window straddling both seams (x 640..655 across 648, y 488..495 across 492) meets the
    hypotheses, touches all four controllers, and with a 2-row buffer (4 bytes) the driver really
    returns; S2 gets byte 0 of buffer rows 0,1,0,1 and S1 byte 1 of rows 0,1,0,1 *)
Example C15_witness_window :
  let win := mkRect 640 488 16 8 in
  window_ok win /\ window_inside win /\ 0 < 2 /\
  map (part_nonempty win) all_chips = [true; true; true; true] /\
  chip_expect 7 0x10 win 2 S2 =
    [(false, DLit [0x10]); (true, DArg 7 0 0 1); (true, DArg 7 0 2 1);
     (true, DArg 7 0 0 1); (true, DArg 7 0 2 1)] /\
  chip_expect 7 0x10 win 2 S1 =
    [(false, DLit [0x10]); (true, DArg 7 0 1 1); (true, DArg 7 0 3 1);
     (true, DArg 7 0 1 1); (true, DArg 7 0 3 1)] /\
  pw_fields win S2 = Some (0, 7, 488, 491) /\ pw_fields win M2 = Some (648, 655, 488, 491) /\
  pw_fields win M1 = Some (640, 647, 0, 3) /\ pw_fields win S1 = Some (0, 7, 0, 3) /\
  fst (fst (exec 7 (OWriteData1Partial win 4) 0)) = Some KUnit /\
  owner (640 / 8 + 1) (488 + 5) = S1.
Proof.
  cbv zeta. unfold window_ok, window_inside. cbn [rx ry rw rh].
  repeat split; try reflexivity; try lia.
Qed.

(** a window confined to M2 leaves three controllers untouched; they get the off-screen block *)
Example C15_witness_untouched :
  let win := mkRect 800 100 64 10 in
  window_ok win /\ map (part_nonempty win) all_chips = [false; true; false; false] /\
  pw_fields win S2 = None /\ pw_fields win M2 = Some (440, 503, 100, 109) /\
  chip_expect 0 0x13 win 10 S1 = [].
Proof.
  cbv zeta. unfold window_ok. cbn [rx ry rw rh]. repeat split; try reflexivity; try lia.
Qed.

(** calls that return, calls that panic, a call that errs *)
Example C15_witness_calls :
  fst (fst (exec 0 (OInit (mkConfig false false LUTBD false)) 0)) = Some KUnit /\
  fst (fst (exec 0 (OWriteData1 1) 0)) = None /\
  16 < 16 + 1 /\ 3 < 16 /\
  OPowerOff <> OGetStatus /\ OPowerOff <> OGetBusy /\ OPowerOff <> OIsBusy /\
  (exists w1 evs, call 0 OPowerOff (Some 0) 0 idle_world = (BRErr, 15, w1, evs)) /\
  (exists w1 evs, call 0 OPowerOff None 0 idle_world = (BROk VUnit, 0, w1, evs)) /\
  fst (fst (fst (fst (fst (bexpand (set_fault (Some 1) idle_world) 0
                             (snd (exec 0 OHibernate 0))))))) = OErr.
Proof.
  repeat split; try reflexivity; try lia; try discriminate.
  - eexists. eexists. vm_compute. reflexivity.
  - eexists. eexists. vm_compute. reflexivity.
Qed.

Print Assumptions C15_pins_released_after_call.
Print Assumptions C15_pins_driven_before_transfer.
Print Assumptions C15_get_status_pins.
Print Assumptions C15_cmd_dc_low.
Print Assumptions C15_data_dc_high.
Print Assumptions C15_owner_geometry.
Print Assumptions C15_window_data_tiling.
Print Assumptions C15_untouched_chip_silent.
Print Assumptions C15_every_window_byte_delivered.
Print Assumptions C15_every_delivered_byte_owned.
Print Assumptions C15_delivered_count.
Print Assumptions C15_shares_add_up.
Print Assumptions C15_full_frame_tiling.
Print Assumptions C15_partial_write_tiling.
Print Assumptions C15_partial_window_blocks.
Print Assumptions C15_set_mode_bytes.
Print Assumptions C15_fail_stop.
Print Assumptions C15_release_after_error_refuted.
Print Assumptions C15_release_after_error_witnesses.
Print Assumptions C15_get_status_after_error_contention.
Print Assumptions C15_consistent_after_error.
Print Assumptions C15_recovery_after_error.

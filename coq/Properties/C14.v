(** C14 Colour encodings round-trip, bit masks are exact, conversions are total and nearest.
    Nothing but statements, each closed by [exact].  Statements that turned out FALSE of the
    model are kept as [Definition .._stmt : Prop] together with a [.._refuted] theorem. *)
From Coq Require Import List NArith Bool Lia.
From EPD Require Import Pure.Color Pure.ColorProofs.
Import ListNotations.
Open Scope N_scope.

(** * 1. Every wire/raw encoding decodes back to the same colour *)

Theorem C14_bit_roundtrip : forall c, from_u8 (get_bit_value c) = Some c.
Proof. exact from_u8_bit. Qed.

Theorem C14_bit_decodes_iff : forall v c, from_u8 v = Some c <-> v = get_bit_value c.
Proof. exact from_u8_some_iff. Qed.

Theorem C14_byte_is_eight_copies_of_bit : forall c k, k < 8 ->
  N.testbit (get_byte_value c) k = (get_bit_value c =? 1).
Proof. exact byte_value_all_bits. Qed.

Theorem C14_tri_byte_is_eight_copies_of_bit : forall c k, k < 8 ->
  N.testbit (tri_byte_value c) k = (tri_bit_value c =? 1).
Proof. exact tri_byte_value_all_bits. Qed.

Theorem C14_nibble_roundtrip : forall c, from_nibble (get_nibble c) = Some c.
Proof. exact from_nibble_get. Qed.

Theorem C14_nibble_decodes_iff : forall n c, from_nibble n = Some c <-> n mod 16 = get_nibble c.
Proof. exact from_nibble_some_iff. Qed.

Theorem C14_nibble_rejected_iff : forall n, from_nibble n = None <-> 8 <= n mod 16.
Proof. exact from_nibble_none_iff. Qed.

Theorem C14_nibble_pair_roundtrip : forall a b, split_byte (colors_byte a b) = Some (a, b).
Proof. exact split_colors_byte. Qed.

Theorem C14_nibble_pair_decode_encode : forall b h l, b < 256 ->
  split_byte b = Some (h, l) -> colors_byte h l = b.
Proof. exact colors_byte_split. Qed.

Theorem C14_oct_raw_u4_roundtrip : forall c, oct_from_raw_u4 (get_nibble c) = Some c.
Proof. exact oct_raw_u4_get. Qed.

(** the crate defines no [From<TriColor> for RawU2]; only the decoder exists *)
Theorem C14_tri_raw_u2_decode : forall v,
  tri_from_raw_u2 v = match v mod 4 with 0 => TWhite | 1 => TBlack | _ => TChromatic end.
Proof. exact tri_raw_u2_spec. Qed.

Theorem C14_tri_raw_u2_onto : forall c, exists v, v < 4 /\ tri_from_raw_u2 v = c.
Proof. exact tri_raw_u2_onto. Qed.

Theorem C14_binary_maps_to_black_white :
  color_from_binary true = Black /\ color_from_binary false = White /\
  tri_from_binary true = TBlack /\ tri_from_binary false = TWhite /\
  oct_from_binary true = OBlack /\ oct_from_binary false = OWhite.
Proof. exact binary_black_white. Qed.

Theorem C14_inverse_involution : forall c, inverse (inverse c) = c /\ inverse c <> c.
Proof. exact inverse_involution. Qed.

(** * 2. Raw storage values: two intended statements are FALSE of the model *)

(** intended: Color -> RawU1 -> Color is the identity *)
Definition C14_raw_u1_roundtrip_stmt : Prop :=
  forall c, color_from_raw_u1 (color_to_raw_u1 c) = c.

(** witness: White -> 1 -> Black *)
Theorem C14_raw_u1_roundtrip_refuted : ~ C14_raw_u1_roundtrip_stmt.
Proof. exact raw_u1_roundtrip_false. Qed.

(** what holds instead: the round trip INVERTS every colour, in both directions *)
Theorem C14_raw_u1_roundtrip_actual : forall c,
  color_from_raw_u1 (color_to_raw_u1 c) = inverse c.
Proof. exact raw_u1_roundtrip_actual. Qed.

Theorem C14_raw_u1_decode_encode_actual : forall v,
  color_to_raw_u1 (color_from_raw_u1 v) = 1 - v mod 2.
Proof. exact raw_u1_other_direction. Qed.

(** intended: every RawU4 converts to an OctColor without panicking *)
Definition C14_oct_raw_u4_total_stmt : Prop :=
  forall v, v < 16 -> exists c, oct_from_raw_u4 v = Some c.

(** witness: 8 *)
Theorem C14_oct_raw_u4_total_refuted : ~ C14_oct_raw_u4_total_stmt.
Proof. exact oct_raw_u4_total_false. Qed.

Theorem C14_oct_raw_u4_panics_iff : forall v, oct_from_raw_u4 v = None <-> 8 <= v mod 16.
Proof. exact oct_raw_u4_none_iff. Qed.

Theorem C14_oct_raw_u4_partial : forall v, v mod 16 < 8 ->
  exists c, oct_from_raw_u4 v = Some c /\ get_nibble c = v mod 16.
Proof. exact oct_raw_u4_some. Qed.

(** * 3. Per-pixel bit masks *)

(** ** two-level colour *)
Theorem C14_bitmask_color_value : forall c pos,
  bitmask_color c pos =
  (255 - 2 ^ (7 - pos mod 8), match c with White => 2 ^ (7 - pos mod 8) | Black => 0 end).
Proof. exact bitmask_color_spec. Qed.

(** the mask clears exactly the pixel's bit of the byte (for every bit index [k]) *)
Theorem C14_bitmask_color_mask_bits : forall c pos k,
  N.testbit (fst (bitmask_color c pos)) k = (k <? 8) && negb (k =? 7 - pos mod 8).
Proof. exact bitmask_color_mask_bits. Qed.

Theorem C14_bitmask_color_bits_bits : forall c pos k,
  N.testbit (snd (bitmask_color c pos)) k =
  (k =? 7 - pos mod 8) && match c with White => true | Black => false end.
Proof. exact bitmask_color_bits_bits. Qed.

(** the pixel's bit equals the corresponding bit of the whole-byte fill value *)
Theorem C14_bitmask_color_fill_agree : forall c pos,
  N.testbit (snd (bitmask_color c pos)) (7 - pos mod 8) =
  N.testbit (get_byte_value c) (7 - pos mod 8).
Proof. exact bitmask_color_fill_agree. Qed.

Theorem C14_bitmask_color_fill_land : forall c pos,
  snd (bitmask_color c pos) = N.land (get_byte_value c) (2 ^ (7 - pos mod 8)) /\
  N.land (fst (bitmask_color c pos)) (snd (bitmask_color c pos)) = 0 /\
  N.lor (fst (bitmask_color c pos)) (2 ^ (7 - pos mod 8)) = 255.
Proof. exact bitmask_color_fill_land. Qed.

(** ** three-level colour: low byte = black/white plane, high byte = chromatic plane *)
Theorem C14_bitmask_tri_planes : forall c bwrbit pos,
  fst (bitmask_tri c bwrbit pos) = 255 - 2 ^ (7 - pos mod 8) /\
  snd (bitmask_tri c bwrbit pos) mod 256 =
    match c with
    | TBlack => 0
    | TWhite => 2 ^ (7 - pos mod 8)
    | TChromatic => if bwrbit then 0 else 2 ^ (7 - pos mod 8)
    end /\
  snd (bitmask_tri c bwrbit pos) / 256 =
    match c with TChromatic => 2 ^ (7 - pos mod 8) | _ => 0 end.
Proof. exact bitmask_tri_planes. Qed.

Theorem C14_bitmask_tri_mask_bits : forall c bwrbit pos k,
  N.testbit (fst (bitmask_tri c bwrbit pos)) k = (k <? 8) && negb (k =? 7 - pos mod 8).
Proof. exact bitmask_tri_mask_bits. Qed.

Theorem C14_bitmask_tri_bw_bit : forall c bwrbit pos,
  N.testbit (snd (bitmask_tri c bwrbit pos) mod 256) (7 - pos mod 8) =
  match c with TBlack => false | TWhite => true | TChromatic => negb bwrbit end.
Proof. exact bitmask_tri_bw_bit. Qed.

Theorem C14_bitmask_tri_chroma_bit : forall c bwrbit pos,
  N.testbit (snd (bitmask_tri c bwrbit pos) / 256) (7 - pos mod 8) =
  match c with TChromatic => true | _ => false end.
Proof. exact bitmask_tri_chroma_bit. Qed.

Theorem C14_bitmask_tri_other_bits : forall c bwrbit pos k, k <> 7 - pos mod 8 ->
  N.testbit (snd (bitmask_tri c bwrbit pos) mod 256) k = false /\
  N.testbit (snd (bitmask_tri c bwrbit pos) / 256) k = false.
Proof. exact bitmask_tri_other_bits. Qed.

(** agreement with the whole-byte fill value holds for black, white, and for chromatic only
    when [bwrbit = true] *)
Theorem C14_bitmask_tri_fill_agree : forall c bwrbit pos, (c = TChromatic -> bwrbit = true) ->
  N.testbit (snd (bitmask_tri c bwrbit pos) mod 256) (7 - pos mod 8) =
  N.testbit (tri_byte_value c) (7 - pos mod 8).
Proof. exact bitmask_tri_fill_agree. Qed.

(** intended: unconditional agreement with [tri_byte_value] *)
Definition C14_bitmask_tri_fill_agree_stmt : Prop :=
  forall c bwrbit pos,
    N.testbit (snd (bitmask_tri c bwrbit pos) mod 256) (7 - pos mod 8) =
    N.testbit (tri_byte_value c) (7 - pos mod 8).

(** witness: TChromatic, bwrbit = false, pos = 0 *)
Theorem C14_bitmask_tri_fill_agree_refuted : ~ C14_bitmask_tri_fill_agree_stmt.
Proof. exact tri_fill_agree_false. Qed.

(** documented ("bwrbit is the value of the B/W bit when a chromatic colour is set"):
    the B/W-plane bit of a chromatic pixel equals [bwrbit] *)
Definition C14_bitmask_tri_bwrbit_doc_stmt : Prop :=
  forall bwrbit pos,
    N.testbit (snd (bitmask_tri TChromatic bwrbit pos) mod 256) (7 - pos mod 8) = bwrbit.

(** witness: bwrbit = true, pos = 0 (the code writes [negb bwrbit], see C14_bitmask_tri_bw_bit) *)
Theorem C14_bitmask_tri_bwrbit_doc_refuted : ~ C14_bitmask_tri_bwrbit_doc_stmt.
Proof. exact tri_bwrbit_doc_false. Qed.

(** ** seven-colour type: two pixels per byte, even positions in the high nibble *)
Theorem C14_bitmask_oct_value : forall c pos,
  bitmask_oct c pos =
  if pos mod 2 =? 0 then (15, get_nibble c * 16) else (240, get_nibble c).
Proof. exact bitmask_oct_spec. Qed.

(** the mask keeps exactly the other pixel's nibble *)
Theorem C14_bitmask_oct_mask_bits : forall c pos k,
  N.testbit (fst (bitmask_oct c pos)) k = (k <? 8) && negb (k / 4 =? 1 - pos mod 2).
Proof. exact bitmask_oct_mask_bits. Qed.

(** the bits are the pixel's nibble of the whole-byte fill value [colors_byte c c] *)
Theorem C14_bitmask_oct_fill_agree : forall c pos,
  snd (bitmask_oct c pos) = N.land (colors_byte c c) (255 - fst (bitmask_oct c pos)) /\
  N.land (fst (bitmask_oct c pos)) (snd (bitmask_oct c pos)) = 0 /\
  snd (bitmask_oct c pos) < 256.
Proof. exact bitmask_oct_fill_agree. Qed.

Theorem C14_bitmask_oct_nibble : forall c pos,
  (snd (bitmask_oct c pos) / (if pos mod 2 =? 0 then 16 else 1)) mod 16 = get_nibble c.
Proof. exact bitmask_oct_nibble. Qed.

(** * 4. RGB -> two-level colour, in every RGB depth *)

Theorem C14_rgb_thresholds_are_half_white :
  thr888 = (255 + 255 + 255) / 2 /\ thr565 = (31 + 63 + 31) / 2 /\ thr555 = (31 + 31 + 31) / 2.
Proof. exact thresholds_are_half_white. Qed.

(** exact characterisation, no side conditions *)
Theorem C14_rgb888_two_level : forall r g b,
  (color_from_rgb888 r g b = White <-> 765 < 2 * (r + g + b)) /\
  (color_from_rgb888 r g b = Black <-> 2 * (r + g + b) < 765).
Proof. exact rgb888_two_level. Qed.

Theorem C14_rgb565_two_level : forall r g b,
  (color_from_rgb565 r g b = White <-> 125 < 2 * (r + g + b)) /\
  (color_from_rgb565 r g b = Black <-> 2 * (r + g + b) < 125).
Proof. exact rgb565_two_level. Qed.

Theorem C14_rgb555_two_level : forall r g b,
  (color_from_rgb555 r g b = White <-> 93 < 2 * (r + g + b)) /\
  (color_from_rgb555 r g b = Black <-> 2 * (r + g + b) < 93).
Proof. exact rgb555_two_level. Qed.

(** brightness-nearest: [s - 0] is the distance to black, [M - s] the distance to white;
    the last conjunct says a tie is impossible (white's brightness is odd in all depths) *)
Theorem C14_rgb888_brightness_nearest : forall r g b, r <= 255 -> g <= 255 -> b <= 255 ->
  let s := r + g + b in
  (color_from_rgb888 r g b = White <-> 765 - s < s - 0) /\
  (color_from_rgb888 r g b = Black <-> s - 0 < 765 - s) /\
  s - 0 <> 765 - s.
Proof. exact rgb888_nearest. Qed.

Theorem C14_rgb565_brightness_nearest : forall r g b, r <= 31 -> g <= 63 -> b <= 31 ->
  let s := r + g + b in
  (color_from_rgb565 r g b = White <-> 125 - s < s - 0) /\
  (color_from_rgb565 r g b = Black <-> s - 0 < 125 - s) /\
  s - 0 <> 125 - s.
Proof. exact rgb565_nearest. Qed.

Theorem C14_rgb555_brightness_nearest : forall r g b, r <= 31 -> g <= 31 -> b <= 31 ->
  let s := r + g + b in
  (color_from_rgb555 r g b = White <-> 93 - s < s - 0) /\
  (color_from_rgb555 r g b = Black <-> s - 0 < 93 - s) /\
  s - 0 <> 93 - s.
Proof. exact rgb555_nearest. Qed.

Theorem C14_color_rgb_black_white_fixpoints :
  color_from_rgb888 0 0 0 = Black /\ color_from_rgb888 255 255 255 = White /\
  color_from_rgb565 0 0 0 = Black /\ color_from_rgb565 31 63 31 = White /\
  color_from_rgb555 0 0 0 = Black /\ color_from_rgb555 31 31 31 = White.
Proof. exact color_rgb_fixpoints. Qed.

Theorem C14_color_rgb_roundtrip : forall c,
  (let '(r, g, b) := color_to_rgb 255 255 255 c in color_from_rgb888 r g b = c) /\
  (let '(r, g, b) := color_to_rgb 31 63 31 c in color_from_rgb565 r g b = c) /\
  (let '(r, g, b) := color_to_rgb 31 31 31 c in color_from_rgb555 r g b = c).
Proof. exact color_rgb_roundtrip. Qed.

(** * 5. RGB -> seven colours / three colours *)

(** [sqdist] is a distance: zero exactly on equal triples; palette colours are distinct *)
Theorem C14_sqdist_zero_iff : forall p q, sqdist p q = 0 <-> p = q.
Proof. exact sqdist_zero_iff. Qed.

Theorem C14_oct_palette_distinct : forall a b, rgb a = rgb b -> a = b.
Proof. exact rgb_injective. Qed.

(** the search ([find] over all eight, then [min_by_key] from Black over the tail) covers
    all eight colours *)
Theorem C14_oct_rgb_search_covers_all : OBlack :: tl all_oct = all_oct /\ forall c, In c all_oct.
Proof. exact oct_search_covers_all. Qed.

(** general fact about [Iterator::min_by_key] *)
Theorem C14_min_by_key_minimal : forall (A : Type) (key : A -> N) l best,
  In (min_by_key key best l) (best :: l) /\
  forall x, In x (best :: l) -> key (min_by_key key best l) <= key x.
Proof. exact @min_by_key_minimal. Qed.

Theorem C14_oct_rgb_minimal_distance : forall r g b c c', oct_from_rgb888 r g b = c ->
  sqdist (rgb c) (r, g, b) <= sqdist (rgb c') (r, g, b).
Proof. exact oct_rgb_minimal'. Qed.

(** ties go to the colour listed first (smaller nibble) *)
Theorem C14_oct_rgb_first_minimal : forall r g b c c', oct_from_rgb888 r g b = c ->
  get_nibble c' < get_nibble c -> sqdist (rgb c) (r, g, b) < sqdist (rgb c') (r, g, b).
Proof. exact oct_rgb_first'. Qed.

Theorem C14_oct_rgb_exact : forall c r g b, rgb c = (r, g, b) -> oct_from_rgb888 r g b = c.
Proof. exact oct_rgb_exact. Qed.

Theorem C14_oct_rgb_roundtrip : forall c, let '(r, g, b) := rgb c in oct_from_rgb888 r g b = c.
Proof. exact oct_rgb_roundtrip. Qed.

(** the [i32] distance arithmetic of the Rust code cannot overflow *)
Theorem C14_oct_rgb_distance_no_overflow : forall c r g b, r <= 255 -> g <= 255 -> b <= 255 ->
  sqdist (rgb c) (r, g, b) <= 195075 /\ 195075 < 2 ^ 31.
Proof. exact oct_rgb_no_overflow. Qed.

Theorem C14_oct_black_white_fixpoints :
  oct_from_rgb888 0 0 0 = OBlack /\ oct_from_rgb888 255 255 255 = OWhite /\
  rgb OBlack = (0, 0, 0) /\ rgb OWhite = (255, 255, 255).
Proof. exact oct_black_white_fixpoints. Qed.

Theorem C14_tri_rgb_black_white_fixpoints :
  tri_from_rgb888 0 0 0 = TBlack /\ tri_from_rgb888 255 255 255 = TWhite.
Proof. exact tri_rgb_fixpoints. Qed.

Theorem C14_tri_rgb_exact : forall r g b,
  (tri_from_rgb888 r g b = TBlack <-> (r, g, b) = (0, 0, 0)) /\
  (tri_from_rgb888 r g b = TWhite <-> (r, g, b) = (255, 255, 255)).
Proof. exact tri_rgb_spec. Qed.

Theorem C14_tri_rgb_roundtrip : forall c,
  let '(r, g, b) := tri_to_rgb888 c in tri_from_rgb888 r g b = c.
Proof. exact tri_rgb_roundtrip. Qed.

(** * 6. Totality: the only model functions that can return [None].
    [from_u8]: documented panic; [from_nibble]/[split_byte]: [Err], not a panic;
    [oct_from_raw_u4]: [unwrap] panic (see C14_oct_raw_u4_total_refuted).
    Every other conversion of the model is total by its type. *)
Theorem C14_totality :
  (forall v, from_u8 v = None <-> 2 <= v) /\
  (forall n, from_nibble n = None <-> 8 <= n mod 16) /\
  (forall b, split_byte b = None <-> 8 <= b mod 16 \/ 8 <= (b / 16) mod 16) /\
  (forall v, oct_from_raw_u4 v = None <-> 8 <= v mod 16).
Proof. exact totality_summary. Qed.

(** * non-vacuity: the hypotheses of the implications above are met *)
Example C14_witness :
  (3 < 8 /\ N.testbit (get_byte_value White) 3 = true) /\
  (103 < 256 /\ split_byte 103 = Some (OOrange, OHiZ)) /\
  (split_byte 104 = None /\ from_nibble 8 = None /\ oct_from_raw_u4 8 = None) /\
  (21 mod 16 < 8 /\ oct_from_raw_u4 21 = Some OYellow) /\
  (3 <> 7 - 10 mod 8 /\ bitmask_tri TChromatic false 10 = (223, 8224)) /\
  ((TChromatic = TChromatic -> true = true) /\ (TWhite = TChromatic -> false = true)) /\
  (200 <= 255 /\ 100 <= 255 /\ 50 <= 255 /\ color_from_rgb888 200 100 50 = Black) /\
  (20 <= 31 /\ 40 <= 63 /\ 20 <= 31 /\ color_from_rgb565 20 40 20 = White) /\
  (20 <= 31 /\ 20 <= 31 /\ 20 <= 31 /\ color_from_rgb555 20 20 20 = White) /\
  (oct_from_rgb888 200 100 50 = OOrange /\ get_nibble ORed < get_nibble OOrange) /\
  (rgb OOrange = (255, 128, 0) /\ rgb OHiZ = rgb OHiZ).
Proof. repeat split; try reflexivity; try (intros H; discriminate H); lia. Qed.

Print Assumptions C14_bit_roundtrip.
Print Assumptions C14_bit_decodes_iff.
Print Assumptions C14_byte_is_eight_copies_of_bit.
Print Assumptions C14_tri_byte_is_eight_copies_of_bit.
Print Assumptions C14_nibble_roundtrip.
Print Assumptions C14_nibble_decodes_iff.
Print Assumptions C14_nibble_rejected_iff.
Print Assumptions C14_nibble_pair_roundtrip.
Print Assumptions C14_nibble_pair_decode_encode.
Print Assumptions C14_oct_raw_u4_roundtrip.
Print Assumptions C14_tri_raw_u2_decode.
Print Assumptions C14_tri_raw_u2_onto.
Print Assumptions C14_binary_maps_to_black_white.
Print Assumptions C14_inverse_involution.
Print Assumptions C14_raw_u1_roundtrip_refuted.
Print Assumptions C14_raw_u1_roundtrip_actual.
Print Assumptions C14_raw_u1_decode_encode_actual.
Print Assumptions C14_oct_raw_u4_total_refuted.
Print Assumptions C14_oct_raw_u4_panics_iff.
Print Assumptions C14_oct_raw_u4_partial.
Print Assumptions C14_bitmask_color_value.
Print Assumptions C14_bitmask_color_mask_bits.
Print Assumptions C14_bitmask_color_bits_bits.
Print Assumptions C14_bitmask_color_fill_agree.
Print Assumptions C14_bitmask_color_fill_land.
Print Assumptions C14_bitmask_tri_planes.
Print Assumptions C14_bitmask_tri_mask_bits.
Print Assumptions C14_bitmask_tri_bw_bit.
Print Assumptions C14_bitmask_tri_chroma_bit.
Print Assumptions C14_bitmask_tri_other_bits.
Print Assumptions C14_bitmask_tri_fill_agree.
Print Assumptions C14_bitmask_tri_fill_agree_refuted.
Print Assumptions C14_bitmask_tri_bwrbit_doc_refuted.
Print Assumptions C14_bitmask_oct_value.
Print Assumptions C14_bitmask_oct_mask_bits.
Print Assumptions C14_bitmask_oct_fill_agree.
Print Assumptions C14_bitmask_oct_nibble.
Print Assumptions C14_rgb_thresholds_are_half_white.
Print Assumptions C14_rgb888_two_level.
Print Assumptions C14_rgb565_two_level.
Print Assumptions C14_rgb555_two_level.
Print Assumptions C14_rgb888_brightness_nearest.
Print Assumptions C14_rgb565_brightness_nearest.
Print Assumptions C14_rgb555_brightness_nearest.
Print Assumptions C14_color_rgb_black_white_fixpoints.
Print Assumptions C14_color_rgb_roundtrip.
Print Assumptions C14_sqdist_zero_iff.
Print Assumptions C14_oct_palette_distinct.
Print Assumptions C14_oct_rgb_search_covers_all.
Print Assumptions C14_min_by_key_minimal.
Print Assumptions C14_oct_rgb_minimal_distance.
Print Assumptions C14_oct_rgb_first_minimal.
Print Assumptions C14_oct_rgb_exact.
Print Assumptions C14_oct_rgb_roundtrip.
Print Assumptions C14_oct_rgb_distance_no_overflow.
Print Assumptions C14_oct_black_white_fixpoints.
Print Assumptions C14_tri_rgb_black_white_fixpoints.
Print Assumptions C14_tri_rgb_exact.
Print Assumptions C14_tri_rgb_roundtrip.
Print Assumptions C14_totality.

(** * Reach: a verified reachability checker.
    If a list [R] contains the initial state and is closed under the successor function, then every
    state reachable by ANY finite sequence of steps is in [R]; so a check that holds for all of [R]
    holds after every history, of any length. *)
From Coq Require Import List Bool NArith PArith FMapPositive.
Import ListNotations.

Section Reach.
Variables (S L : Type).
Variable eq_dec : forall a b : S, {a = b} + {a <> b}.
Variable step : S -> L -> option S.      (* None: the step is not enabled (panic / unsupported) *)
Variable labels : list L.
Variable key : S -> N.        (* any function: a fingerprint used to index states; no logical role *)

Definition pkey (s : S) : positive := N.succ_pos (key s).
Definition index := PositiveMap.t (list S).

Definition ins (s : S) (m : index) : index :=
  match PositiveMap.find (pkey s) m with
  | Some b => PositiveMap.add (pkey s) (s :: b) m
  | None => PositiveMap.add (pkey s) [s] m
  end.
Definition build (R : list S) : index := fold_left (fun m s => ins s m) R (PositiveMap.empty _).

Definition memi (s : S) (m : index) : bool :=
  match PositiveMap.find (pkey s) m with
  | Some b => existsb (fun r => if eq_dec s r then true else false) b
  | None => false
  end.

Definition sound (m : index) (R : list S) : Prop :=
  forall k b, PositiveMap.find k m = Some b -> forall s, In s b -> In s R.

Lemma ins_sound s m R : sound m R -> In s R -> sound (ins s m) R.
Proof.
  intros Hm Hs k b. unfold ins. destruct (PositiveMap.find (pkey s) m) as [b0|] eqn:E.
  - destruct (Pos.eq_dec k (pkey s)) as [->|N].
    + rewrite PositiveMap.gss. intros [= <-] x [<-|Hx]; [assumption|]. eapply Hm; eassumption.
    + rewrite PositiveMap.gso by assumption. apply Hm.
  - destruct (Pos.eq_dec k (pkey s)) as [->|N].
    + rewrite PositiveMap.gss. intros [= <-] x [<-|[]]. assumption.
    + rewrite PositiveMap.gso by assumption. apply Hm.
Qed.

Lemma build_sound R : sound (build R) R.
Proof.
  unfold build.
  assert (G : forall l m, sound m R -> (forall s, In s l -> In s R) -> sound (fold_left (fun m s => ins s m) l m) R).
  { induction l as [|a r IH]; intros m Hm Hl; [exact Hm|]. cbn [fold_left]. apply IH.
    - apply ins_sound; [assumption|]. apply Hl. now left.
    - intros s Hs. apply Hl. now right. }
  apply G; [|auto]. intros k b. now rewrite PositiveMap.gempty.
Qed.

Lemma memi_In s m R : sound m R -> memi s m = true -> In s R.
Proof.
  intros Hm. unfold memi. destruct (PositiveMap.find (pkey s) m) as [b|] eqn:E; [|discriminate].
  rewrite existsb_exists. intros (r & Hr & Eq). destruct (eq_dec s r); [subst|discriminate].
  eapply Hm; eassumption.
Qed.

Definition closed (R : list S) : bool :=
  let m := build R in
  forallb (fun s => forallb (fun l => match step s l with Some t => memi t m | None => true end) labels) R.

(** run a history: disabled steps are skipped *)
Fixpoint run (s : S) (h : list L) : S :=
  match h with
  | [] => s
  | l :: r => match step s l with Some t => run t r | None => run s r end
  end.

Theorem closed_reach R s0 : In s0 R -> closed R = true ->
  forall h, Forall (fun l => In l labels) h -> In (run s0 h) R.
Proof.
  intros H0 HC h. revert s0 H0. induction h as [|l r IH]; intros s0 H0 HF; [exact H0|].
  inversion HF as [|? ? Hl Hr]; subst. cbn [run].
  destruct (step s0 l) as [t|] eqn:E; [|now apply IH].
  apply IH; [|assumption]. unfold closed in HC. rewrite forallb_forall in HC.
  specialize (HC s0 H0). rewrite forallb_forall in HC. specialize (HC l Hl). rewrite E in HC.
  eapply memi_In; [apply build_sound|exact HC].
Qed.

(** breadth-first exploration with fuel (untrusted: its result is checked by [closed]) *)
Fixpoint explore (fuel : nat) (frontier : list S) (visited : list S) (m : index) : list S :=
  match fuel with
  | O => visited
  | Datatypes.S k =>
      match frontier with
      | [] => visited
      | _ =>
          let next := flat_map (fun s => flat_map (fun l => match step s l with Some t => [t] | None => [] end) labels) frontier in
          let '(fresh, m') := fold_left (fun '(acc, mm) t => if memi t mm then (acc, mm) else (t :: acc, ins t mm)) next ([], m) in
          explore k fresh (fresh ++ visited) m'
      end
  end.
Definition explore0 (fuel : nat) (s0 : S) : list S := explore fuel [s0] [s0] (ins s0 (PositiveMap.empty _)).

(** an invariant checked on R holds after every history *)
Corollary reach_inv (ok : S -> bool) R s0 : In s0 R -> closed R = true -> forallb ok R = true ->
  forall h, Forall (fun l => In l labels) h -> ok (run s0 h) = true.
Proof.
  intros H0 HC HO h HF. rewrite forallb_forall in HO. apply HO. now apply closed_reach.
Qed.
End Reach.

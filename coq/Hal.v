(** * Hal: expansion of transport calls into HAL events = a transcription of src/interface.rs *)
From Coq Require Import List NArith Bool.
From EPD Require Import Iface.
Import ListNotations.
Open Scope N_scope.

(** ** HAL events as seen by the embedded-hal mocks *)
Inductive hal :=
| HDc (b : bool)                    (* dc.set_low / set_high *)
| HRst (b : bool)
| HSpi (l : list N) (ok : bool)     (* one SpiDevice::write *)
| HPoll (asked_low : bool) (ans : bool)   (* busy.is_low() / is_high() and its answer *)
| HDelay (u : dunit) (n : N).

(** ** The outside world: the busy line and the injected SPI fault *)
Inductive busymodel :=
| BStream (levels : list bool) (phase : bool)
    (* raw pin levels (true = high); once exhausted the line alternates starting at [phase] *)
| BAuto (busy_low : bool) (cmds : list N) (durs : list N) (rem : N).
    (* reactive: a command in [cmds] or the end of a reset pulse starts an episode whose length in
       polls is the next element of [durs] (0 when exhausted); the line is at its busy level while
       [rem > 0] and every poll uses one up *)

Record world := mkW {
  w_busy : busymodel;
  w_fault : option N;      (* successful transfers left before the failing one *)
  w_rst : option bool      (* last level driven on RST *)
}.

Definition poll_level (b : busymodel) : bool * busymodel :=
  match b with
  | BStream (l :: r) ph => (l, BStream r ph)
  | BStream [] ph => (ph, BStream [] (negb ph))
  | BAuto bl cmds durs rem =>
      if 0 <? rem then (negb bl, BAuto bl cmds durs (rem - 1)) else (bl, b)
  end.

Definition start_episode (b : busymodel) : busymodel :=
  match b with
  | BStream _ _ => b
  | BAuto bl cmds (d :: r) _ => BAuto bl cmds r d
  | BAuto bl cmds [] _ => BAuto bl cmds [] 0
  end.

Definition on_cmd (c : N) (b : busymodel) : busymodel :=
  match b with
  | BAuto _ cmds _ _ => if existsb (N.eqb c) cmds then start_episode b else b
  | _ => b
  end.

(** fuel that provably suffices for one wait loop in this world *)
Definition wait_fuel (b : busymodel) : nat :=
  match b with
  | BStream l _ => S (S (S (length l)))
  | BAuto _ _ _ rem => S (S (N.to_nat rem))
  end.

Inductive outcome := OOk | OErr | OPanic | ODiverged.

Record icfg := mkCfg { sbw : bool; cfg_delay_us : N }.
(** [DisplayInterface::new]: [delay_us.unwrap_or(10_000)] *)
Definition mk_cfg (single_byte_write : bool) (delay_us : option N) : icfg :=
  mkCfg single_byte_write (match delay_us with Some d => d | None => 10000 end).

(** ** Buffer environment: the bytes of argument [arg] of call [call] at index [i] *)
Definition env := N -> N -> N -> N.

Fixpoint nseq (start : N) (len : nat) : list N :=
  match len with O => [] | S k => start :: nseq (start + 1) k end.

Definition den (rho : env) (e : dexp) : list N :=
  match e with
  | DLit l => l
  | DArg c a off len => map (rho c a) (nseq off (N.to_nat len))
  | DRep v n => repeat v (N.to_nat n)
  end.

(** ** A small state monad over (world, reversed event list) with early exit *)
Definition H := world -> list hal -> (outcome * world * list hal).
(* events are accumulated in reverse for efficiency *)

Definition hret : H := fun w acc => (OOk, w, acc).
Definition hseq (a b : H) : H := fun w acc =>
  match a w acc with
  | (OOk, w1, acc1) => b w1 acc1
  | r => r
  end.
Definition hev (e : hal) : H := fun w acc => (OOk, w, e :: acc).

(** one SpiDevice::write as issued by [DisplayInterface::write] for one chunk *)
Definition spi_write (dc_low_cmd : option N) (l : list N) : H := fun w acc =>
  match w_fault w with
  | Some 0 => (OErr, mkW (w_busy w) None (w_rst w), HSpi l false :: acc)
  | f =>
      let f' := match f with Some k => Some (k - 1) | None => None end in
      let b' := match dc_low_cmd with Some c => on_cmd c (w_busy w) | None => w_busy w end in
      (OOk, mkW b' f' (w_rst w), HSpi l true :: acc)
  end.

(** [data.chunks(4096)] *)
Definition chunk_sz : nat := N.to_nat 4096.
Fixpoint chunks_fuel (fuel : nat) (l : list N) : list (list N) :=
  match fuel with
  | O => []
  | S k => match l with
           | [] => []
           | _ => firstn chunk_sz l :: chunks_fuel k (skipn chunk_sz l)
           end
  end.
Definition chunks (l : list N) : list (list N) :=
  chunks_fuel (S (N.to_nat (N.of_nat (length l) / 4096))) l.

Fixpoint hseq_list (l : list H) : H :=
  match l with [] => hret | a :: r => hseq a (hseq_list r) end.

(** DisplayInterface::write on Linux *)
Definition if_write (l : list N) : H := hseq_list (map (spi_write None) (chunks l)).

(** DisplayInterface::cmd *)
Definition if_cmd (c : N) : H := hseq (hev (HDc false)) (spi_write (Some c) [c]).

(** DisplayInterface::data *)
Definition if_data (cfg : icfg) (l : list N) : H :=
  hseq (hev (HDc true))
       (if sbw cfg then hseq_list (map (fun b => spi_write None [b]) l) else if_write l).

(** DisplayInterface::data_x_times *)
Definition if_data_x (v n : N) : H :=
  hseq (hev (HDc true)) (hseq_list (map (fun b => spi_write None [b]) (repeat v (N.to_nat n)))).

(** DisplayInterface::is_busy — the short-circuit: exactly one of is_low / is_high is called *)
Definition if_is_busy (busy_low : bool) (k : bool -> H) : H := fun w acc =>
  let '(lvl, b') := poll_level (w_busy w) in
  let ans := if busy_low then negb lvl else lvl in
  k ans (mkW b' (w_fault w) (w_rst w)) (HPoll busy_low ans :: acc).

Definition idle_delay (cfg : icfg) : H :=
  if 0 <? cfg_delay_us cfg then hev (HDelay Dus (cfg_delay_us cfg)) else hret.

(** DisplayInterface::wait_until_idle *)
Fixpoint wait_loop (cfg : icfg) (busy_low : bool) (fuel : nat) : H :=
  match fuel with
  | O => fun w acc => (ODiverged, w, acc)
  | S k => if_is_busy busy_low (fun busy =>
             if busy then hseq (idle_delay cfg) (wait_loop cfg busy_low k) else hret)
  end.
Definition if_wait (cfg : icfg) (busy_low : bool) : H := fun w acc =>
  wait_loop cfg busy_low (wait_fuel (w_busy w)) w acc.

(** DisplayInterface::wait_until_idle_with_cmd *)
Fixpoint wait_cmd_loop (cfg : icfg) (busy_low : bool) (c : N) (fuel : nat) : H :=
  match fuel with
  | O => fun w acc => (ODiverged, w, acc)
  | S k => if_is_busy busy_low (fun busy =>
             if busy then hseq (if_cmd c) (hseq (idle_delay cfg) (wait_cmd_loop cfg busy_low c k))
             else hret)
  end.
Definition if_wait_cmd (cfg : icfg) (busy_low : bool) (c : N) : H :=
  hseq (if_cmd c) (hseq (idle_delay cfg) (fun w acc =>
    wait_cmd_loop cfg busy_low c (wait_fuel (w_busy w)) w acc)).

(** DisplayInterface::reset *)
Definition set_rst (b : bool) : H := fun w acc =>
  let busy' := match w_rst w, b with
               | Some false, true => start_episode (w_busy w)
               | _, _ => w_busy w
               end in
  (OOk, mkW busy' (w_fault w) (Some b), HRst b :: acc).
Definition if_reset (a b : N) : H :=
  hseq_list [ set_rst true; hev (HDelay Dus a); set_rst false; hev (HDelay Dus b);
              set_rst true; hev (HDelay Dus 200000) ].

(** split a list in groups of [n] (n > 0) *)
Fixpoint groups_fuel (fuel : nat) (n : nat) (l : list N) : list (list N) :=
  match fuel with
  | O => []
  | S k => match l with [] => [] | _ => firstn n l :: groups_fuel k n (skipn n l) end
  end.
Definition groups (n : nat) (l : list N) : list (list N) := groups_fuel (S (length l)) n l.

Definition expand_call (cfg : icfg) (rho : env) (i : icall) : H :=
  match i with
  | ICmd c => if_cmd c
  | IData e => if_data cfg (den rho e)
  | IDataEach g grp e =>
      hseq_list (map (fun b => hseq_list (map (if_data cfg) (groups (Pos.to_nat grp) (bapply g b))))
                     (den rho e))
  | IDataX v n => if_data_x v n
  | IWait bl => if_wait cfg bl
  | IWaitCmd bl c => if_wait_cmd cfg bl c
  | IReset a b => if_reset a b
  | IDelay u n => hev (HDelay u n)
  end.

(** Run the items of one API call.  Returns the outcome, the world, the driver fields the caller
    is left with, and the events (in order). *)
Fixpoint expand_items (cfg : icfg) (rho : env) (t : list item) (d : dstate)
         (w : world) (acc : list hal) : outcome * world * dstate * list hal :=
  match t with
  | [] => (OOk, w, d, acc)
  | ICall i :: r =>
      match expand_call cfg rho i w acc with
      | (OOk, w1, acc1) => expand_items cfg rho r d w1 acc1
      | (o, w1, acc1) => (o, w1, d, acc1)
      end
  | ISet d' :: r => expand_items cfg rho r d' w acc
  | IPanic :: _ => (OPanic, w, d, acc)
  end.

Definition expand (cfg : icfg) (rho : env) (t : list item) (d0 : dstate) (w : world)
  : outcome * world * dstate * list hal :=
  match expand_items cfg rho t d0 w [] with
  | (o, w1, d, acc) => (o, w1, d, rev_append acc [])
  end.

(** * HalProofs: theorems about the HAL expansion (= src/interface.rs), for ALL item lists, worlds,
      buffer contents, data lengths and both write modes.  Basis of C10, C11, C04(a), C05(c,d). *)
From Coq Require Import List NArith PArith Bool Lia Arith.
From EPD Require Import Iface Hal HalSat.
Import ListNotations.
Open Scope N_scope.

(** ** chunks *)
Lemma chunk_sz_pos : (0 < chunk_sz)%nat.
Proof. unfold chunk_sz. lia. Qed.

Lemma chunks_fuel_concat fuel l : (length l <= fuel * chunk_sz)%nat -> concat (chunks_fuel fuel l) = l.
Proof.
  revert l. induction fuel as [|k IH]; intros l Hl.
  - destruct l; [reflexivity|]. rewrite Nat.mul_0_l in Hl. cbn [length] in Hl. lia.
  - cbn [chunks_fuel]. destruct l as [|a r] eqn:E; [reflexivity|]. rewrite <- E in *.
    cbn [concat]. rewrite IH; [apply firstn_skipn|]. rewrite skipn_length. rewrite Nat.mul_succ_l in Hl. lia.
Qed.

Lemma chunks_fuel_sizes fuel l :
  Forall (fun c => (1 <= length c <= chunk_sz)%nat) (chunks_fuel fuel l).
Proof.
  revert l. induction fuel as [|k IH]; intros l; cbn [chunks_fuel]; [constructor|].
  destruct l as [|a r] eqn:E; [constructor|]. rewrite <- E. constructor; [|apply IH].
  rewrite firstn_length. pose proof chunk_sz_pos. subst l. cbn [length]. lia.
Qed.

Lemma chunks_concat l : concat (chunks l) = l.
Proof.
  unfold chunks. apply chunks_fuel_concat.
  assert (Hc : chunk_sz = N.to_nat 4096) by reflexivity. rewrite Hc.
  assert (N.of_nat (length l) < (N.of_nat (length l) / 4096 + 1) * 4096).
  { pose proof (N.mul_succ_div_gt (N.of_nat (length l)) 4096). lia. }
  lia.
Qed.

Lemma chunks_sizes l : Forall (fun c => (1 <= length c)%nat /\ N.of_nat (length c) <= 4096) (chunks l).
Proof.
  eapply Forall_impl; [|apply chunks_fuel_sizes]. cbn. intros c [H1 H2].
  assert (Hc : chunk_sz = N.to_nat 4096) by reflexivity. lia.
Qed.

(** ** Fault-free exact behaviour of the primitives *)
Definition ff (w : world) : Prop := w_fault w = None.

Lemma ff_eta w : ff w -> mkW (w_busy w) None (w_rst w) = w.
Proof. destruct w; unfold ff; cbn. now intros ->. Qed.

Lemma spi_write_ff c l :
  hsat (spi_write c l) (fun w o w' e => ff w -> o = OOk /\ e = [HSpi l true] /\ ff w' /\
     w' = mkW (match c with Some x => on_cmd x (w_busy w) | None => w_busy w end) None (w_rst w)).
Proof.
  intros w acc. unfold spi_write. destruct (w_fault w) as [[|p]|] eqn:F.
  - eexists _, _, [_]. split; [reflexivity|]. unfold ff. congruence.
  - eexists _, _, [_]. split; [reflexivity|]. unfold ff. congruence.
  - eexists _, _, [_]. split; [reflexivity|]. intros _. repeat split.
Qed.

Definition xfers (pieces : list (list N)) : list hal := map (fun p => HSpi p true) pieces.

Lemma writes_ff pieces :
  hsat (hseq_list (map (spi_write None) pieces))
       (fun w o w' e => ff w -> o = OOk /\ w' = w /\ e = xfers pieces).
Proof.
  induction pieces as [|p r IH]; cbn [map hseq_list].
  - eapply hsat_weaken; [exact hsat_ret|]. intros w o w' e (-> & -> & ->). auto.
  - eapply hsat_weaken; [exact (hsat_seq _ _ _ _ (spi_write_ff None p) IH)|].
    intros w o w' e [[Hne H]|(w1 & e1 & e2 & H1 & H2 & ->)] F.
    + destruct (H F) as (-> & _). congruence.
    + destruct (H1 F) as (_ & -> & F1 & ->). rewrite (ff_eta w F) in *.
      destruct (H2 F) as (-> & -> & ->). auto.
Qed.

Lemma map_singleton_write l :
  map (fun b : N => spi_write None [b]) l = map (spi_write None) (map (fun b => [b]) l).
Proof. now rewrite map_map. Qed.

(** the pieces [DisplayInterface::data] cuts a slice into *)
Definition pieces (cfg : icfg) (l : list N) : list (list N) :=
  if sbw cfg then map (fun b => [b]) l else chunks l.

Lemma pieces_concat cfg l : concat (pieces cfg l) = l.
Proof.
  unfold pieces. destruct (sbw cfg); [|apply chunks_concat].
  induction l as [|a r IH]; cbn; [reflexivity|now rewrite IH].
Qed.

Lemma pieces_sizes cfg l :
  Forall (fun c => (1 <= length c)%nat /\ N.of_nat (length c) <= 4096) (pieces cfg l).
Proof.
  unfold pieces. destruct (sbw cfg); [|apply chunks_sizes].
  apply Forall_forall. intros c Hc. apply in_map_iff in Hc. destruct Hc as (b & <- & _). cbn. lia.
Qed.

Lemma if_data_ff cfg l :
  hsat (if_data cfg l) (fun w o w' e => ff w -> o = OOk /\ w' = w /\ e = HDc true :: xfers (pieces cfg l)).
Proof.
  unfold if_data, pieces.
  assert (HX : hsat (if sbw cfg then hseq_list (map (fun b => spi_write None [b]) l) else if_write l)
                    (fun w o w' e => ff w -> o = OOk /\ w' = w /\
                       e = xfers (if sbw cfg then map (fun b => [b]) l else chunks l))).
  { destruct (sbw cfg); [rewrite map_singleton_write|unfold if_write]; apply writes_ff. }
  eapply hsat_weaken; [exact (hsat_seq _ _ _ _ (hsat_ev (HDc true)) HX)|].
  intros w o w' e [[Hne (-> & _)]|(w1 & e1 & e2 & (_ & -> & ->) & H2 & ->)] F; [congruence|].
  destruct (H2 F) as (-> & -> & ->). auto.
Qed.

Lemma if_data_x_ff v n :
  hsat (if_data_x v n) (fun w o w' e => ff w -> o = OOk /\ w' = w /\
        e = HDc true :: repeat (HSpi [v] true) (N.to_nat n)).
Proof.
  unfold if_data_x. rewrite map_singleton_write.
  eapply hsat_weaken; [exact (hsat_seq _ _ _ _ (hsat_ev (HDc true)) (writes_ff _))|].
  intros w o w' e [[Hne (-> & _)]|(w1 & e1 & e2 & (_ & -> & ->) & H2 & ->)] F; [congruence|].
  destruct (H2 F) as (-> & -> & ->). repeat split. cbn [app]. f_equal.
  unfold xfers. rewrite map_map. induction (N.to_nat n) as [|k IH]; cbn; [reflexivity|now rewrite IH].
Qed.

Lemma if_cmd_ff c :
  hsat (if_cmd c) (fun w o w' e => ff w -> o = OOk /\ e = [HDc false; HSpi [c] true] /\
        w' = mkW (on_cmd c (w_busy w)) None (w_rst w)).
Proof.
  unfold if_cmd.
  eapply hsat_weaken; [exact (hsat_seq _ _ _ _ (hsat_ev (HDc false)) (spi_write_ff (Some c) [c]))|].
  intros w o w' e [[Hne (-> & _)]|(w1 & e1 & e2 & (_ & -> & ->) & H2 & ->)] F; [congruence|].
  destruct (H2 F) as (-> & -> & _ & ->). auto.
Qed.

(** [reset] is world-independent: always the same six events, never an SPI transfer *)
Lemma if_reset_exact a b :
  hsat (if_reset a b) (fun w o w' e => o = OOk /\ w_fault w' = w_fault w /\ w_rst w' = Some true /\
     e = [HRst true; HDelay Dus a; HRst false; HDelay Dus b; HRst true; HDelay Dus 200000]).
Proof.
  intros w acc. unfold if_reset, hseq_list, hseq, set_rst, hev, hret. cbn.
  eexists _, _, [_; _; _; _; _; _]. split; [reflexivity|]. auto.
Qed.

(** ** Invariants that hold in EVERY world (faults included) *)

(** *** D/C discipline and transfer sizes (C10) *)
Fixpoint wire (dc : option bool) (e : list hal) : bool * option bool :=
  match e with
  | [] => (true, dc)
  | HDc b :: r => wire (Some b) r
  | HSpi l _ :: r =>
      match dc with
      | Some false => if N.of_nat (length l) =? 1 then wire dc r else (false, dc)
      | Some true => if (1 <=? N.of_nat (length l)) && (N.of_nat (length l) <=? 4096) then wire dc r
                     else (false, dc)
      | None => (false, dc)
      end
  | _ :: r => wire dc r
  end.

Lemma wire_app dc e1 e2 : fst (wire dc e1) = true ->
  wire dc (e1 ++ e2) = wire (snd (wire dc e1)) e2.
Proof.
  revert dc. induction e1 as [|x r IH]; intros dc H; [reflexivity|].
  destruct x; cbn [wire app] in *; try (apply IH; assumption).
  destruct dc as [[|]|]; cbn in *; try discriminate.
  - destruct ((1 <=? N.of_nat (length l)) && (N.of_nat (length l) <=? 4096)); [now apply IH|discriminate].
  - destruct (N.of_nat (length l) =? 1); [now apply IH|discriminate].
Qed.

(** events that keep D/C at level [d] and transfer only well-sized pieces *)
Definition Q_from (d : bool) : post := fun _ _ _ e => wire (Some d) e = (true, Some d).
(** events of a whole transport call: fine from ANY previous D/C state *)
Definition Q_wire : post := fun _ _ _ e => forall dc, fst (wire dc e) = true.

Lemma Q_from_closed d : seq_closed (Q_from d).
Proof.
  split; [reflexivity|]. unfold Q_from. intros w w1 o w' e1 e2 H1 H2.
  rewrite wire_app by now rewrite H1. now rewrite H1.
Qed.

Lemma Q_wire_closed : seq_closed Q_wire.
Proof.
  split; [intros w dc; reflexivity|]. unfold Q_wire. intros w w1 o w' e1 e2 H1 H2 dc.
  rewrite wire_app by apply H1. apply H2.
Qed.

Lemma spi_write_from c l (d : bool) :
  (if d then (1 <= length l)%nat /\ N.of_nat (length l) <= 4096 else length l = 1%nat) ->
  hsat (spi_write c l) (Q_from d).
Proof.
  intros Hl w acc. unfold spi_write, Q_from.
  assert (E : forall ok, wire (Some d) [HSpi l ok] = (true, Some d)).
  { intros ok. cbn. destruct d.
    - destruct Hl as [H1 H2]. replace (1 <=? N.of_nat (length l)) with true by (symmetry; apply N.leb_le; lia).
      replace (N.of_nat (length l) <=? 4096) with true by (symmetry; now apply N.leb_le). reflexivity.
    - now rewrite Hl. }
  destruct (w_fault w) as [[|p]|]; eexists _, _, [_]; (split; [reflexivity|apply E]).
Qed.

Lemma writes_from ps : Forall (fun c => (1 <= length c)%nat /\ N.of_nat (length c) <= 4096) ps ->
  hsat (hseq_list (map (spi_write None) ps)) (Q_from true).
Proof.
  intros F. apply hsat_list_closed; [apply Q_from_closed|].
  apply Forall_forall. intros a Ha. apply in_map_iff in Ha. destruct Ha as (p & <- & Hp).
  apply spi_write_from. exact (proj1 (Forall_forall _ _) F p Hp).
Qed.

Lemma from_to_wire a d : hsat a (Q_from d) -> hsat (hseq (hev (HDc d)) a) Q_wire.
Proof.
  intros Ha. eapply hsat_weaken; [exact (hsat_seq _ _ _ _ (hsat_ev (HDc d)) Ha)|].
  intros w o w' e [[Hne (-> & _)]|(w1 & e1 & e2 & (_ & -> & ->) & H2 & ->)]; [congruence|].
  intros dc. cbn. unfold Q_from in H2. now rewrite H2.
Qed.

Lemma if_data_wire cfg l : hsat (if_data cfg l) Q_wire.
Proof.
  unfold if_data. apply from_to_wire. pose proof (pieces_sizes cfg l) as P. unfold pieces in P.
  destruct (sbw cfg); [rewrite map_singleton_write|unfold if_write]; now apply writes_from.
Qed.

Lemma if_data_x_wire v n : hsat (if_data_x v n) Q_wire.
Proof.
  unfold if_data_x. apply from_to_wire. rewrite map_singleton_write. apply writes_from.
  apply Forall_forall. intros c Hc. apply in_map_iff in Hc. destruct Hc as (b & <- & _). cbn. lia.
Qed.

Lemma if_cmd_wire c : hsat (if_cmd c) Q_wire.
Proof. unfold if_cmd. apply from_to_wire. now apply spi_write_from. Qed.

Lemma ev_wire x : (match x with HSpi _ _ => False | _ => True end) -> hsat (hev x) Q_wire.
Proof.
  intros Hx. eapply hsat_weaken; [exact (hsat_ev x)|]. intros w o w' e (_ & _ & ->) dc.
  destruct x; cbn; try reflexivity. contradiction.
Qed.

Lemma idle_delay_wire cfg : hsat (idle_delay cfg) Q_wire.
Proof.
  unfold idle_delay. destruct (0 <? cfg_delay_us cfg); [now apply ev_wire|].
  apply hsat_ret_closed, Q_wire_closed.
Qed.

Lemma diverged_sat (Q : post) : (forall w, Q w ODiverged w []) -> hsat (fun w acc => (ODiverged, w, acc)) Q.
Proof. intros HQ w acc. exists ODiverged, w, []. auto. Qed.

Lemma wait_loop_wire cfg bl fuel : hsat (wait_loop cfg bl fuel) Q_wire.
Proof.
  induction fuel as [|k IH]; cbn [wait_loop].
  - apply diverged_sat. intros w dc. reflexivity.
  - apply hsat_is_busy; [apply Q_wire_closed| |].
    + intros w lvl b' _ dc. reflexivity.
    + intros [|]; [|apply hsat_ret_closed, Q_wire_closed].
      apply hsat_seq_closed; [apply Q_wire_closed|apply idle_delay_wire|exact IH].
Qed.

Lemma wait_cmd_loop_wire cfg bl c fuel : hsat (wait_cmd_loop cfg bl c fuel) Q_wire.
Proof.
  induction fuel as [|k IH]; cbn [wait_cmd_loop].
  - apply diverged_sat. intros w dc. reflexivity.
  - apply hsat_is_busy; [apply Q_wire_closed| |].
    + intros w lvl b' _ dc. reflexivity.
    + intros [|]; [|apply hsat_ret_closed, Q_wire_closed].
      apply hsat_seq_closed; [apply Q_wire_closed|apply if_cmd_wire|].
      apply hsat_seq_closed; [apply Q_wire_closed|apply idle_delay_wire|exact IH].
Qed.

Lemma fuelled_sat (f : nat -> H) (g : world -> nat) (Q : post) :
  (forall n, hsat (f n) Q) -> hsat (fun w acc => f (g w) w acc) Q.
Proof. intros Hf w acc. apply Hf. Qed.

Lemma expand_call_wire cfg rho i : hsat (expand_call cfg rho i) Q_wire.
Proof.
  destruct i; cbn [expand_call].
  - apply if_cmd_wire.
  - apply if_data_wire.
  - apply hsat_list_closed; [apply Q_wire_closed|]. apply Forall_forall. intros a Ha.
    apply in_map_iff in Ha. destruct Ha as (b & <- & _).
    apply hsat_list_closed; [apply Q_wire_closed|]. apply Forall_forall. intros a Ha.
    apply in_map_iff in Ha. destruct Ha as (gp & <- & _). apply if_data_wire.
  - apply if_data_x_wire.
  - unfold if_wait. apply (fuelled_sat (wait_loop cfg busy_low)). apply wait_loop_wire.
  - unfold if_wait_cmd. apply hsat_seq_closed; [apply Q_wire_closed|apply if_cmd_wire|].
    apply hsat_seq_closed; [apply Q_wire_closed|apply idle_delay_wire|].
    apply (fuelled_sat (wait_cmd_loop cfg busy_low c)). apply wait_cmd_loop_wire.
  - eapply hsat_weaken; [apply if_reset_exact|]. intros w o w' e (_ & _ & _ & ->) dc. reflexivity.
  - now apply ev_wire.
Qed.

(** lifting a call-level invariant to the items of an API call *)
Lemma expand_items_inv (Q : post) cfg rho : seq_closed Q -> (forall w, Q w OPanic w []) ->
  (forall i, hsat (expand_call cfg rho i) Q) ->
  forall t d w acc, exists o w' d' evs,
    expand_items cfg rho t d w acc = (o, w', d', rev evs ++ acc) /\ Q w o w' evs.
Proof.
  intros [C0 C] CP Hc. induction t as [|x r IH]; intros d w acc; cbn [expand_items].
  - exists OOk, w, d, []. split; [reflexivity|apply C0].
  - destruct x as [i|d1|].
    + destruct (Hc i w acc) as (o & w1 & e1 & E & HQ). rewrite E. destruct o.
      * destruct (IH d w1 (rev e1 ++ acc)) as (o2 & w2 & d2 & e2 & E2 & HQ2). rewrite E2.
        exists o2, w2, d2, (e1 ++ e2). split; [now rewrite rev_app_distr, app_assoc|]. eapply C; eassumption.
      * exists OErr, w1, d, e1. auto.
      * exists OPanic, w1, d, e1. auto.
      * exists ODiverged, w1, d, e1. auto.
    + apply IH.
    + exists OPanic, w, d, []. split; [reflexivity|apply CP].
Qed.

(** *** Fail-stop (C04 a): the injected failure is the last thing that happens *)
Definition is_fail (x : hal) : bool := match x with HSpi _ false => true | _ => false end.
Definition is_xfer (x : hal) : bool := match x with HSpi _ true => true | _ => false end.
Definition no_fail (e : list hal) : Prop := forallb (fun x => negb (is_fail x)) e = true.
Definition nxfer (e : list hal) : N := N.of_nat (length (filter is_xfer e)).

Lemma no_fail_app e1 e2 : no_fail (e1 ++ e2) <-> no_fail e1 /\ no_fail e2.
Proof. unfold no_fail. rewrite forallb_app, andb_true_iff. tauto. Qed.
Lemma nxfer_app e1 e2 : nxfer (e1 ++ e2) = nxfer e1 + nxfer e2.
Proof. unfold nxfer. rewrite filter_app, app_length. lia. Qed.

(** [w_fault w = Some k]: the k-th transfer (0-based) of the call fails *)
Definition Q_fs : post := fun w o w' e =>
  match w_fault w with
  | None => o <> OErr /\ no_fail e /\ w_fault w' = None
  | Some k =>
      (o = OErr /\ w_fault w' = None /\
         exists pre l, e = pre ++ [HSpi l false] /\ no_fail pre /\ nxfer pre = k)
      \/ (o <> OErr /\ no_fail e /\ nxfer e <= k /\ w_fault w' = Some (k - nxfer e))
  end.

Lemma Q_fs_closed : seq_closed Q_fs.
Proof.
  split.
  - intros w. unfold Q_fs. destruct (w_fault w) as [k|] eqn:F.
    + right. repeat split; try discriminate. cbn. lia. cbn. f_equal. lia.
    + repeat split; discriminate.
  - intros w w1 o w' e1 e2 H1 H2. unfold Q_fs in *. destruct (w_fault w) as [k|] eqn:F.
    + destruct H1 as [(H & _)|(_ & N1 & L1 & F1)]; [discriminate|]. rewrite F1 in H2.
      destruct H2 as [(-> & F2 & pre & l & -> & N2 & X2)|(Ho & N2 & L2 & F2)].
      * left. repeat split; [assumption|]. exists (e1 ++ pre), l. rewrite app_assoc. repeat split.
        -- apply no_fail_app; auto.
        -- rewrite nxfer_app. lia.
      * right. repeat split; [assumption|apply no_fail_app; auto|rewrite nxfer_app; lia|].
        rewrite F2, nxfer_app. f_equal. lia.
    + destruct H1 as (_ & N1 & F1). rewrite F1 in H2. destruct H2 as (Ho & N2 & F2).
      repeat split; [assumption|apply no_fail_app; auto|assumption].
Qed.

Lemma spi_write_fs c l : hsat (spi_write c l) Q_fs.
Proof.
  intros w acc. unfold spi_write, Q_fs. destruct (w_fault w) as [[|p]|] eqn:F.
  - eexists _, _, [_]. split; [reflexivity|]. left. repeat split. exists [], l. repeat split.
  - eexists _, _, [_]. split; [reflexivity|]. right. cbn.
    repeat split; try discriminate; try lia; try (f_equal; unfold nxfer; cbn; lia).
  - eexists _, _, [_]. split; [reflexivity|]. cbn. repeat split; discriminate.
Qed.

(** any action that makes no transfer and keeps the fault counter *)
Lemma fs_of_quiet (a : H) :
  hsat a (fun w o w' e => o <> OErr /\ w_fault w' = w_fault w /\ forallb (fun x => match x with HSpi _ _ => false | _ => true end) e = true) ->
  hsat a Q_fs.
Proof.
  intros Ha. eapply hsat_weaken; [exact Ha|]. intros w o w' e (Ho & F & Hq). unfold Q_fs.
  assert (N1 : no_fail e).
  { unfold no_fail. rewrite forallb_forall in *. intros x Hx. specialize (Hq x Hx). destruct x; auto. discriminate. }
  assert (N2 : nxfer e = 0).
  { unfold nxfer. replace (filter is_xfer e) with (@nil hal); [reflexivity|].
    symmetry. induction e as [|x r IH]; [reflexivity|]. cbn in Hq. apply andb_true_iff in Hq. destruct Hq as [H1 H2].
    cbn. destruct x; cbn; try (apply IH; assumption). discriminate. }
  rewrite F. destruct (w_fault w) as [k|]; [right|]; repeat split; auto; rewrite ?N2; try lia; try (f_equal; lia).
Qed.

Lemma ev_fs x : (match x with HSpi _ _ => False | _ => True end) -> hsat (hev x) Q_fs.
Proof.
  intros Hx. apply fs_of_quiet. eapply hsat_weaken; [exact (hsat_ev x)|]. intros w o w' e (-> & -> & ->).
  repeat split; [discriminate|]. destruct x; auto; contradiction.
Qed.

Lemma writes_fs {A} (f : A -> H) (ps : list A) : (forall p, hsat (f p) Q_fs) -> hsat (hseq_list (map f ps)) Q_fs.
Proof.
  intros Hf. apply hsat_list_closed; [apply Q_fs_closed|]. apply Forall_forall. intros a Ha.
  apply in_map_iff in Ha. destruct Ha as (p & <- & _). apply Hf.
Qed.

Lemma if_cmd_fs c : hsat (if_cmd c) Q_fs.
Proof. unfold if_cmd. apply hsat_seq_closed; [apply Q_fs_closed|now apply ev_fs|apply spi_write_fs]. Qed.

Lemma if_data_fs cfg l : hsat (if_data cfg l) Q_fs.
Proof.
  unfold if_data. apply hsat_seq_closed; [apply Q_fs_closed|now apply ev_fs|].
  destruct (sbw cfg).
  - apply hsat_list_closed; [apply Q_fs_closed|]. apply Forall_forall. intros a Ha.
    apply in_map_iff in Ha. destruct Ha as (p & <- & _). apply spi_write_fs.
  - unfold if_write. apply writes_fs. intros p. apply spi_write_fs.
Qed.

Lemma if_data_x_fs v n : hsat (if_data_x v n) Q_fs.
Proof.
  unfold if_data_x. apply hsat_seq_closed; [apply Q_fs_closed|now apply ev_fs|].
  apply hsat_list_closed; [apply Q_fs_closed|]. apply Forall_forall. intros a Ha.
  apply in_map_iff in Ha. destruct Ha as (p & <- & _). apply spi_write_fs.
Qed.

Lemma idle_delay_fs cfg : hsat (idle_delay cfg) Q_fs.
Proof.
  unfold idle_delay. destruct (0 <? cfg_delay_us cfg); [now apply ev_fs|apply hsat_ret_closed, Q_fs_closed].
Qed.

Lemma poll_fs bl w lvl b' : Q_fs w OOk (mkW b' (w_fault w) (w_rst w)) [HPoll bl (if bl then negb lvl else lvl)].
Proof.
  unfold Q_fs. cbn [w_fault]. destruct (w_fault w) as [k|]; [right|]; repeat split; try discriminate;
    try (cbn; lia); try (cbn; f_equal; lia).
Qed.

Lemma diverged_fs w : Q_fs w ODiverged w [].
Proof.
  unfold Q_fs. destruct (w_fault w) as [k|] eqn:F; [right|]; repeat split; try discriminate; try assumption;
    try (cbn; lia); try (cbn; f_equal; lia).
Qed.

Lemma wait_loop_fs cfg bl fuel : hsat (wait_loop cfg bl fuel) Q_fs.
Proof.
  induction fuel as [|k IH]; cbn [wait_loop].
  - apply diverged_sat, diverged_fs.
  - apply hsat_is_busy; [apply Q_fs_closed|intros; apply poll_fs|].
    intros [|]; [|apply hsat_ret_closed, Q_fs_closed].
    apply hsat_seq_closed; [apply Q_fs_closed|apply idle_delay_fs|exact IH].
Qed.

Lemma wait_cmd_loop_fs cfg bl c fuel : hsat (wait_cmd_loop cfg bl c fuel) Q_fs.
Proof.
  induction fuel as [|k IH]; cbn [wait_cmd_loop].
  - apply diverged_sat, diverged_fs.
  - apply hsat_is_busy; [apply Q_fs_closed|intros; apply poll_fs|].
    intros [|]; [|apply hsat_ret_closed, Q_fs_closed].
    apply hsat_seq_closed; [apply Q_fs_closed|apply if_cmd_fs|].
    apply hsat_seq_closed; [apply Q_fs_closed|apply idle_delay_fs|exact IH].
Qed.

Lemma expand_call_fs cfg rho i : hsat (expand_call cfg rho i) Q_fs.
Proof.
  destruct i; cbn [expand_call].
  - apply if_cmd_fs.
  - apply if_data_fs.
  - apply writes_fs. intros b. apply writes_fs. intros p. apply if_data_fs.
  - apply if_data_x_fs.
  - unfold if_wait. apply (fuelled_sat (wait_loop cfg busy_low)). apply wait_loop_fs.
  - unfold if_wait_cmd. apply hsat_seq_closed; [apply Q_fs_closed|apply if_cmd_fs|].
    apply hsat_seq_closed; [apply Q_fs_closed|apply idle_delay_fs|].
    apply (fuelled_sat (wait_cmd_loop cfg busy_low c)). apply wait_cmd_loop_fs.
  - apply fs_of_quiet. eapply hsat_weaken; [apply if_reset_exact|].
    intros w o w' e (-> & F & _ & ->). repeat split; [discriminate|assumption].
  - now apply ev_fs.
Qed.

Lemma panic_fs w : Q_fs w OPanic w [].
Proof.
  unfold Q_fs. destruct (w_fault w) as [k|] eqn:F; [right|]; repeat split; try discriminate; try assumption;
    try (cbn; lia); try (cbn; f_equal; lia).
Qed.

(** ** The theorems about [expand] *)
Lemma expand_events cfg rho t d w (Q : post) : seq_closed Q -> (forall w, Q w OPanic w []) ->
  (forall i, hsat (expand_call cfg rho i) Q) ->
  match expand cfg rho t d w with (o, w', _, evs) => Q w o w' evs end.
Proof.
  intros C CP Hc. unfold expand.
  destruct (expand_items_inv Q cfg rho C CP Hc t d w []) as (o & w' & d' & evs & E & HQ).
  rewrite E. rewrite rev_append_rev, !app_nil_r, rev_involutive. exact HQ.
Qed.

(** C10: every transfer is qualified by a D/C level driven earlier in the same call; transfers with
    D/C low carry exactly one byte; transfers with D/C high carry 1..4096 bytes — in EVERY world
    (busy behaviour, injected fault), for every item list, buffer contents and write mode. *)
Theorem expand_wire cfg rho t d w :
  match expand cfg rho t d w with (_, _, _, evs) => forall dc, fst (wire dc evs) = true end.
Proof.
  pose proof (expand_events cfg rho t d w Q_wire Q_wire_closed) as H.
  destruct (expand cfg rho t d w) as [[[o w'] d'] evs]. apply H.
  - intros w0 dc. reflexivity.
  - apply expand_call_wire.
Qed.

(** C04(a): fail-stop.  With the k-th transfer set to fail, either the call makes at most k
    transfers and is unaffected by the fault, or it returns exactly the SPI error, the failing
    transfer is the last HAL event of the call, and exactly k transfers succeeded before it. *)
Theorem expand_failstop cfg rho t d w :
  match expand cfg rho t d w with (o, w', _, evs) => Q_fs w o w' evs end.
Proof.
  apply expand_events; [apply Q_fs_closed|apply panic_fs|apply expand_call_fs].
Qed.

(** ** Reset discipline (C11): nothing but delays happens while RST is low, and RST ends high *)
Fixpoint rst_scan (low : bool) (e : list hal) : bool * bool :=   (* (ok, low afterwards) *)
  match e with
  | [] => (true, low)
  | HRst b :: r => rst_scan (negb b) r
  | HDelay _ _ :: r => rst_scan low r
  | _ :: r => if low then (false, low) else rst_scan low r
  end.

Lemma rst_scan_app low e1 e2 : fst (rst_scan low e1) = true ->
  rst_scan low (e1 ++ e2) = rst_scan (snd (rst_scan low e1)) e2.
Proof.
  revert low. induction e1 as [|x r IH]; intros low H; [reflexivity|].
  destruct x; cbn [rst_scan app] in *; try (now apply IH);
    destruct low; cbn in *; try discriminate; now apply IH.
Qed.

Definition Q_rst : post := fun _ _ _ e => rst_scan false e = (true, false).

Lemma Q_rst_closed : seq_closed Q_rst.
Proof.
  split; [reflexivity|]. unfold Q_rst. intros w w1 o w' e1 e2 H1 H2.
  rewrite rst_scan_app by now rewrite H1. now rewrite H1.
Qed.

Lemma no_rst_sat (a : H) :
  hsat a (fun _ _ _ e => forallb (fun x => match x with HRst _ => false | _ => true end) e = true) ->
  hsat a Q_rst.
Proof.
  intros Ha. eapply hsat_weaken; [exact Ha|]. intros w o w' e Hq. unfold Q_rst.
  induction e as [|x r IH]; [reflexivity|]. cbn in Hq. apply andb_true_iff in Hq. destruct Hq as [H1 H2].
  destruct x; cbn [rst_scan]; try (now apply IH). discriminate.
Qed.

Definition Q_norst : post :=
  fun _ _ _ e => forallb (fun x => match x with HRst _ => false | _ => true end) e = true.
Lemma Q_norst_closed : seq_closed Q_norst.
Proof. split; [reflexivity|]. unfold Q_norst. intros. rewrite forallb_app. now apply andb_true_iff. Qed.

Lemma spi_write_norst c l : hsat (spi_write c l) Q_norst.
Proof. intros w acc. unfold spi_write. destruct (w_fault w) as [[|p]|]; eexists _, _, [_]; (split; [reflexivity|reflexivity]). Qed.
Lemma ev_norst x : (match x with HRst _ => False | _ => True end) -> hsat (hev x) Q_norst.
Proof. intros Hx. eapply hsat_weaken; [exact (hsat_ev x)|]. intros w o w' e (_ & _ & ->). destruct x; try reflexivity; contradiction. Qed.
Lemma list_norst {A} (f : A -> H) (ps : list A) : (forall p, hsat (f p) Q_norst) -> hsat (hseq_list (map f ps)) Q_norst.
Proof.
  intros Hf. apply hsat_list_closed; [apply Q_norst_closed|]. apply Forall_forall. intros a Ha.
  apply in_map_iff in Ha. destruct Ha as (p & <- & _). apply Hf.
Qed.
Lemma if_cmd_norst c : hsat (if_cmd c) Q_norst.
Proof. unfold if_cmd. apply hsat_seq_closed; [apply Q_norst_closed|now apply ev_norst|apply spi_write_norst]. Qed.
Lemma if_data_norst cfg l : hsat (if_data cfg l) Q_norst.
Proof.
  unfold if_data. apply hsat_seq_closed; [apply Q_norst_closed|now apply ev_norst|].
  destruct (sbw cfg); [|unfold if_write]; apply list_norst; intros p; apply spi_write_norst.
Qed.
Lemma idle_delay_norst cfg : hsat (idle_delay cfg) Q_norst.
Proof. unfold idle_delay. destruct (0 <? cfg_delay_us cfg); [now apply ev_norst|apply hsat_ret_closed, Q_norst_closed]. Qed.
Lemma wait_loop_norst cfg bl fuel : hsat (wait_loop cfg bl fuel) Q_norst.
Proof.
  induction fuel as [|k IH]; cbn [wait_loop]; [apply diverged_sat; reflexivity|].
  apply hsat_is_busy; [apply Q_norst_closed|reflexivity|].
  intros [|]; [|apply hsat_ret_closed, Q_norst_closed].
  apply hsat_seq_closed; [apply Q_norst_closed|apply idle_delay_norst|exact IH].
Qed.
Lemma wait_cmd_loop_norst cfg bl c fuel : hsat (wait_cmd_loop cfg bl c fuel) Q_norst.
Proof.
  induction fuel as [|k IH]; cbn [wait_cmd_loop]; [apply diverged_sat; reflexivity|].
  apply hsat_is_busy; [apply Q_norst_closed|reflexivity|].
  intros [|]; [|apply hsat_ret_closed, Q_norst_closed].
  apply hsat_seq_closed; [apply Q_norst_closed|apply if_cmd_norst|].
  apply hsat_seq_closed; [apply Q_norst_closed|apply idle_delay_norst|exact IH].
Qed.

Lemma expand_call_norst cfg rho i : (match i with IReset _ _ => False | _ => True end) ->
  hsat (expand_call cfg rho i) Q_norst.
Proof.
  intros Hi. destruct i; cbn [expand_call]; try contradiction.
  - apply if_cmd_norst.
  - apply if_data_norst.
  - apply list_norst. intros b. apply list_norst. intros p. apply if_data_norst.
  - unfold if_data_x. apply hsat_seq_closed; [apply Q_norst_closed|now apply ev_norst|].
    apply list_norst. intros p. apply spi_write_norst.
  - unfold if_wait. apply (fuelled_sat (wait_loop cfg busy_low)). apply wait_loop_norst.
  - unfold if_wait_cmd. apply hsat_seq_closed; [apply Q_norst_closed|apply if_cmd_norst|].
    apply hsat_seq_closed; [apply Q_norst_closed|apply idle_delay_norst|].
    apply (fuelled_sat (wait_cmd_loop cfg busy_low c)). apply wait_cmd_loop_norst.
  - now apply ev_norst.
Qed.

Lemma expand_call_rst cfg rho i : hsat (expand_call cfg rho i) Q_rst.
Proof.
  destruct i; try (apply no_rst_sat; now apply expand_call_norst).
  cbn [expand_call]. eapply hsat_weaken; [apply if_reset_exact|]. intros w o w' e (_ & _ & _ & ->). reflexivity.
Qed.

(** C11 (transport part): in every call, whatever the world, only delays happen while RST is low
    and RST is high again when the call ends; each [IReset a b] is exactly
    high, wait a, low, wait b, high, wait 200 ms. *)
Theorem expand_rst cfg rho t d w :
  match expand cfg rho t d w with (_, _, _, evs) => rst_scan false evs = (true, false) end.
Proof.
  pose proof (expand_events cfg rho t d w Q_rst Q_rst_closed) as H.
  destruct (expand cfg rho t d w) as [[[o w'] d'] evs]. apply H; [reflexivity|apply expand_call_rst].
Qed.

(** ** The wait loop (C05 c, d) *)
(** what [wait_until_idle] does on a line that is busy for exactly [d] more polls *)
Fixpoint wait_events (cfg : icfg) (bl : bool) (d : nat) : list hal :=
  match d with
  | O => [HPoll bl false]
  | S k => HPoll bl true ::
           (if 0 <? cfg_delay_us cfg then [HDelay Dus (cfg_delay_us cfg)] else []) ++ wait_events cfg bl k
  end.

Lemma wait_loop_matching cfg bl cmds durs f r : forall d fuel w acc,
  w = mkW (BAuto bl cmds durs (N.of_nat d)) f r -> (d < fuel)%nat ->
  wait_loop cfg bl fuel w acc =
  (OOk, mkW (BAuto bl cmds durs 0) f r, rev (wait_events cfg bl d) ++ acc).
Proof.
  induction d as [|k IH]; intros fuel w acc -> Hf; (destruct fuel as [|fuel]; [lia|]); cbn [wait_loop].
  - unfold if_is_busy. cbn. destruct bl; reflexivity.
  - unfold if_is_busy. cbn [w_busy poll_level].
    replace (0 <? N.of_nat (S k)) with true by (symmetry; apply N.ltb_lt; lia).
    replace (N.of_nat (S k) - 1) with (N.of_nat k) by lia.
    replace (if bl then negb (negb bl) else negb bl) with true by (destruct bl; reflexivity).
    cbn [w_fault w_rst]. unfold hseq, idle_delay. destruct (0 <? cfg_delay_us cfg) eqn:D.
    + unfold hev. rewrite (IH fuel _ _ eq_refl) by lia. cbn [wait_events rev]. rewrite D.
      cbn [app rev]. now rewrite <- !app_assoc.
    + unfold hret. rewrite (IH fuel _ _ eq_refl) by lia. cbn [wait_events rev]. rewrite D.
      cbn [app rev]. now rewrite <- !app_assoc.
Qed.

(** With the panel's own polarity, [wait_until_idle] ends every running episode: d busy polls, each
    followed by exactly one delay of [delay_us] (none when 0), one idle poll, and it returns —
    for EVERY duration d.  The default fuel never runs out. *)
Theorem if_wait_matching cfg bl cmds durs f r d acc :
  if_wait cfg bl (mkW (BAuto bl cmds durs (N.of_nat d)) f r) acc =
  (OOk, mkW (BAuto bl cmds durs 0) f r, rev (wait_events cfg bl d) ++ acc).
Proof.
  unfold if_wait. apply wait_loop_matching; [reflexivity|]. cbn. lia.
Qed.

(** With the WRONG polarity the same call returns at once while the episode is still running ... *)
Theorem if_wait_wrong_polarity_busy cfg bl cmds durs f r d acc : 0 < d ->
  if_wait cfg bl (mkW (BAuto (negb bl) cmds durs d) f r) acc =
  (OOk, mkW (BAuto (negb bl) cmds durs (d - 1)) f r, HPoll bl false :: acc).
Proof.
  intros Hd. unfold if_wait. cbn [w_busy wait_fuel wait_loop]. unfold if_is_busy. cbn [w_busy poll_level].
  replace (0 <? d) with true by (symmetry; now apply N.ltb_lt). cbn [w_fault w_rst].
  destruct bl; reflexivity.
Qed.

(** ... and spins for ever on an idle line (the model runs out of fuel: [ODiverged]). *)
Lemma wait_loop_wrong_idle cfg bl cmds durs f r : forall fuel acc,
  fst (fst (wait_loop cfg bl fuel (mkW (BAuto (negb bl) cmds durs 0) f r) acc)) = ODiverged.
Proof.
  induction fuel as [|k IH]; intros acc; [reflexivity|]. cbn [wait_loop]. unfold if_is_busy.
  cbn [w_busy poll_level]. cbn [N.ltb N.compare]. cbn [w_fault w_rst].
  replace (if bl then negb (negb bl) else negb bl) with true by (destruct bl; reflexivity).
  unfold hseq, idle_delay. destruct (0 <? cfg_delay_us cfg); unfold hev, hret.
  - specialize (IH (HDelay Dus (cfg_delay_us cfg) :: HPoll bl true :: acc)).
    destruct (wait_loop cfg bl k _ _) as [[o w'] e]. cbn in IH. subst o. reflexivity.
  - specialize (IH (HPoll bl true :: acc)).
    destruct (wait_loop cfg bl k _ _) as [[o w'] e]. cbn in IH. subst o. reflexivity.
Qed.

Theorem if_wait_wrong_polarity_idle cfg bl cmds durs f r acc :
  fst (fst (if_wait cfg bl (mkW (BAuto (negb bl) cmds durs 0) f r) acc)) = ODiverged.
Proof. unfold if_wait. apply wait_loop_wrong_idle. Qed.

(** ** The logical byte stream (C10 d): what the controller sees, whatever the chunking *)
Fixpoint lstream (dc : option bool) (e : list hal) : list (option bool * N) :=
  match e with
  | [] => []
  | HDc b :: r => lstream (Some b) r
  | HSpi l true :: r => map (pair dc) l ++ lstream dc r
  | _ :: r => lstream dc r
  end.
Fixpoint dc_after (dc : option bool) (e : list hal) : option bool :=
  match e with [] => dc | HDc b :: r => dc_after (Some b) r | _ :: r => dc_after dc r end.

Lemma lstream_app dc e1 e2 : lstream dc (e1 ++ e2) = lstream dc e1 ++ lstream (dc_after dc e1) e2.
Proof.
  revert dc. induction e1 as [|x r IH]; intros dc; [reflexivity|].
  destruct x; cbn [lstream dc_after app]; try apply IH. destruct ok; [|apply IH].
  now rewrite IH, app_assoc.
Qed.

Lemma lstream_xfers d ps : lstream (Some d) (xfers ps) = map (pair (Some d)) (concat ps).
Proof.
  induction ps as [|p r IH]; [reflexivity|]. cbn [xfers map lstream concat]. fold (xfers r).
  now rewrite IH, map_app.
Qed.

(** the stream a transport call is meant to put on the wire *)
Definition H_ := Some true.  Definition L_ := Some false.
Inductive stream_ok (rho : env) : icall -> list (option bool * N) -> Prop :=
| SoCmd c : stream_ok rho (ICmd c) [(L_, c)]
| SoData e : stream_ok rho (IData e) (map (pair H_) (den rho e))
| SoEach g grp e :
    stream_ok rho (IDataEach g grp e) (map (pair H_) (flat_map (bapply g) (den rho e)))
| SoX v n : stream_ok rho (IDataX v n) (repeat (H_, v) (N.to_nat n))
| SoWait bl : stream_ok rho (IWait bl) []
| SoWaitCmd bl c k : stream_ok rho (IWaitCmd bl c) (repeat (L_, c) (S k))
| SoReset a b : stream_ok rho (IReset a b) []
| SoDelay u n : stream_ok rho (IDelay u n) [].

(** post-condition of one call in a fault-free world: stays fault-free, and if it returns the
    logical stream is the intended one from ANY previous D/C state *)
Definition Q_stream (rho : env) (i : icall) : post := fun w o w' e =>
  ff w -> ff w' /\ o <> OErr /\ (o = OOk -> exists s, stream_ok rho i s /\ forall dc, lstream dc e = s).

(** quiet actions: no transfer, no D/C event *)
Definition Q_quiet : post := fun w o w' e =>
  w_fault w' = w_fault w /\ o <> OErr /\
  forallb (fun x => match x with HSpi _ _ | HDc _ => false | _ => true end) e = true.
Lemma Q_quiet_closed : seq_closed Q_quiet.
Proof.
  split; [intros w; repeat split; discriminate|]. unfold Q_quiet.
  intros w w1 o w' e1 e2 (F1 & _ & H1) (F2 & O2 & H2). rewrite forallb_app, H1, H2. repeat split; congruence.
Qed.
Lemma quiet_lstream e dc :
  forallb (fun x => match x with HSpi _ _ | HDc _ => false | _ => true end) e = true ->
  lstream dc e = [] /\ dc_after dc e = dc.
Proof.
  induction e as [|x r IH]; [auto|]. cbn. intros H. apply andb_true_iff in H. destruct H as [H1 H2].
  destruct x; try discriminate; cbn; auto.
Qed.
Lemma ev_quiet x : (match x with HSpi _ _ | HDc _ => False | _ => True end) -> hsat (hev x) Q_quiet.
Proof.
  intros Hx. eapply hsat_weaken; [exact (hsat_ev x)|]. intros w o w' e (-> & -> & ->).
  repeat split; try discriminate. destruct x; try reflexivity; contradiction.
Qed.
Lemma idle_delay_quiet cfg : hsat (idle_delay cfg) Q_quiet.
Proof. unfold idle_delay. destruct (0 <? cfg_delay_us cfg); [now apply ev_quiet|apply hsat_ret_closed, Q_quiet_closed]. Qed.
Lemma wait_loop_quiet cfg bl fuel : hsat (wait_loop cfg bl fuel) Q_quiet.
Proof.
  induction fuel as [|k IH]; cbn [wait_loop].
  - apply diverged_sat. intros w. repeat split; discriminate.
  - apply hsat_is_busy; [apply Q_quiet_closed|intros; repeat split; discriminate|].
    intros [|]; [|apply hsat_ret_closed, Q_quiet_closed].
    apply hsat_seq_closed; [apply Q_quiet_closed|apply idle_delay_quiet|exact IH].
Qed.

(** status-command polling: only [c] with D/C low goes out *)
Definition Q_cmds (c : N) : post := fun w o w' e =>
  ff w -> ff w' /\ o <> OErr /\ exists k, forall dc, lstream dc e = repeat (L_, c) k.
Lemma Q_cmds_closed c : seq_closed (Q_cmds c).
Proof.
  split.
  - intros w F. repeat split; [assumption|discriminate|]. now exists O.
  - unfold Q_cmds. intros w w1 o w' e1 e2 H1 H2 F. destruct (H1 F) as (F1 & _ & k1 & E1).
    destruct (H2 F1) as (F2 & O2 & k2 & E2). repeat split; [assumption..|].
    exists (k1 + k2)%nat. intros dc. now rewrite lstream_app, E1, E2, repeat_app.
Qed.
Lemma if_cmd_cmds c : hsat (if_cmd c) (fun w o w' e => ff w -> ff w' /\ o = OOk /\ forall dc, lstream dc e = [(L_, c)]).
Proof.
  eapply hsat_weaken; [apply if_cmd_ff|]. intros w o w' e H F. destruct (H F) as (-> & -> & ->).
  repeat split.
Qed.
Lemma quiet_cmds a c : hsat a Q_quiet -> hsat a (Q_cmds c).
Proof.
  intros Ha. eapply hsat_weaken; [exact Ha|]. intros w o w' e (F1 & O1 & Hq) F. unfold ff in *.
  repeat split; [congruence|assumption|]. exists O. intros dc. now apply quiet_lstream.
Qed.
Lemma wait_cmd_loop_cmds cfg bl c fuel : hsat (wait_cmd_loop cfg bl c fuel) (Q_cmds c).
Proof.
  induction fuel as [|k IH]; cbn [wait_cmd_loop].
  - apply diverged_sat. intros w F. repeat split; [assumption|discriminate|]. now exists O.
  - apply hsat_is_busy; [apply Q_cmds_closed| |].
    + intros w lvl b' _ F. repeat split; [exact F|discriminate|]. now exists O.
    + intros [|]; [|apply hsat_ret_closed, Q_cmds_closed].
      apply hsat_seq_closed; [apply Q_cmds_closed| |].
      * eapply hsat_weaken; [apply if_cmd_cmds|]. intros w o w' e H F. destruct (H F) as (F' & -> & S).
        repeat split; [assumption|discriminate|]. exists 1%nat. intros dc. apply S.
      * apply hsat_seq_closed; [apply Q_cmds_closed|apply quiet_cmds, idle_delay_quiet|exact IH].
Qed.

Lemma groups_fuel_concat fuel n l : (0 < n)%nat -> (length l <= fuel * n)%nat ->
  concat (groups_fuel fuel n l) = l.
Proof.
  intros Hn. revert l. induction fuel as [|k IH]; intros l Hl.
  - destruct l; [reflexivity|]. rewrite Nat.mul_0_l in Hl. cbn [length] in Hl. lia.
  - cbn [groups_fuel]. destruct l as [|a r] eqn:E; [reflexivity|]. rewrite <- E in *.
    cbn [concat]. rewrite IH; [apply firstn_skipn|]. rewrite skipn_length. rewrite Nat.mul_succ_l in Hl. lia.
Qed.
Lemma groups_concat n l : (0 < n)%nat -> concat (groups n l) = l.
Proof. intros Hn. unfold groups. apply groups_fuel_concat; [assumption|]. nia. Qed.

(** exact fault-free behaviour of a list of actions each of which is exact *)
Lemma list_ff {A} (f : A -> H) (g : A -> list hal) (xs : list A) :
  (forall x, hsat (f x) (fun w o w' e => ff w -> o = OOk /\ w' = w /\ e = g x)) ->
  hsat (hseq_list (map f xs)) (fun w o w' e => ff w -> o = OOk /\ w' = w /\ e = flat_map g xs).
Proof.
  intros Hf. induction xs as [|x r IH]; cbn [map hseq_list flat_map].
  - eapply hsat_weaken; [exact hsat_ret|]. intros w o w' e (-> & -> & ->). auto.
  - eapply hsat_weaken; [exact (hsat_seq _ _ _ _ (Hf x) IH)|].
    intros w o w' e [[Hne H]|(w1 & e1 & e2 & H1 & H2 & ->)] F.
    + destruct (H F) as (-> & _). congruence.
    + destruct (H1 F) as (_ & -> & ->). destruct (H2 F) as (-> & -> & ->). auto.
Qed.

Definition data_events (cfg : icfg) (l : list N) : list hal := HDc true :: xfers (pieces cfg l).

Lemma lstream_data_events cfg l dc : lstream dc (data_events cfg l) = map (pair H_) l.
Proof. unfold data_events. cbn [lstream]. now rewrite lstream_xfers, pieces_concat. Qed.
Lemma dc_after_data_events cfg l dc : dc_after dc (data_events cfg l) = H_.
Proof.
  unfold data_events. cbn [dc_after]. generalize (pieces cfg l). intros ps.
  induction ps as [|p r IH]; [reflexivity|]. cbn. exact IH.
Qed.

Lemma lstream_flat_data cfg (gs : list (list N)) dc :
  lstream dc (flat_map (data_events cfg) gs) = map (pair H_) (concat gs).
Proof.
  revert dc. induction gs as [|g r IH]; intros dc; [reflexivity|]. cbn [flat_map concat].
  now rewrite lstream_app, lstream_data_events, dc_after_data_events, IH, map_app.
Qed.
Lemma dc_after_flat_data cfg (gs : list (list N)) dc :
  dc_after dc (flat_map (data_events cfg) gs) = match gs with [] => dc | _ => H_ end.
Proof.
  revert dc. induction gs as [|g r IH]; intros dc; [reflexivity|]. cbn [flat_map].
  assert (A : forall e1 e2 d, dc_after d (e1 ++ e2) = dc_after (dc_after d e1) e2).
  { induction e1 as [|x r1 IH1]; intros; [reflexivity|]. destruct x; cbn; apply IH1. }
  rewrite A, dc_after_data_events, IH. now destruct r.
Qed.

Lemma expand_call_stream cfg rho i : hsat (expand_call cfg rho i) (Q_stream rho i).
Proof.
  destruct i; cbn [expand_call].
  - eapply hsat_weaken; [apply if_cmd_ff|]. intros w o w' e H F. destruct (H F) as (-> & -> & ->).
    repeat split; [discriminate|]. intros _. eexists. split; [constructor|]. reflexivity.
  - eapply hsat_weaken; [apply if_data_ff|]. intros w o w' e0 H F. destruct (H F) as (-> & -> & ->).
    repeat split; [assumption|discriminate|]. intros _. eexists. split; [constructor|].
    intros dc. apply (lstream_data_events cfg).
  - (* IDataEach *)
    pose (ev_b := fun b : N => flat_map (data_events cfg) (groups (Pos.to_nat grp) (bapply g b))).
    assert (Hb : forall b, hsat (hseq_list (map (if_data cfg) (groups (Pos.to_nat grp) (bapply g b))))
                          (fun w o w' e0 => ff w -> o = OOk /\ w' = w /\ e0 = ev_b b)).
    { intros b. apply list_ff. intros l. apply if_data_ff. }
    eapply hsat_weaken; [exact (list_ff _ ev_b (den rho e) Hb)|].
    intros w o w' e0 H F. destruct (H F) as (-> & -> & ->).
    repeat split; [assumption|discriminate|]. intros _. clear H.
    eexists. split; [constructor|]. intros dc.
    assert (G : forall b, concat (groups (Pos.to_nat grp) (bapply g b)) = bapply g b)
      by (intros b; apply groups_concat; apply Pos2Nat.is_pos).
    revert dc. induction (den rho e) as [|b r IH]; intros dc; [reflexivity|].
    cbn [flat_map]. unfold ev_b at 1. rewrite lstream_app, lstream_flat_data, G, map_app. f_equal.
    apply IH.
  - eapply hsat_weaken; [apply if_data_x_ff|]. intros w o w' e0 H F. destruct (H F) as (-> & -> & ->).
    repeat split; [assumption|discriminate|]. intros _. eexists. split; [constructor|].
    intros dc. cbn [lstream]. induction (N.to_nat n) as [|k IH]; [reflexivity|]. cbn. now rewrite IH.
  - eapply hsat_weaken; [unfold if_wait; apply (fuelled_sat (wait_loop cfg busy_low)), wait_loop_quiet|].
    intros w o w' e0 (F1 & O1 & Hq) F. unfold ff in *. repeat split; [congruence|assumption|].
    intros _. exists []. split; [constructor|]. intros dc. now apply quiet_lstream.
  - (* IWaitCmd *)
    unfold if_wait_cmd.
    assert (HR : hsat (hseq (idle_delay cfg) (fun w acc => wait_cmd_loop cfg busy_low c (wait_fuel (w_busy w)) w acc)) (Q_cmds c)).
    { apply hsat_seq_closed; [apply Q_cmds_closed|apply quiet_cmds, idle_delay_quiet|].
      apply (fuelled_sat (wait_cmd_loop cfg busy_low c)). apply wait_cmd_loop_cmds. }
    eapply hsat_weaken; [exact (hsat_seq _ _ _ _ (if_cmd_cmds c) HR)|].
    intros w o w' e0 [[Hne H]|(w1 & e1 & e2 & H1 & H2 & ->)] F.
    + destruct (H F) as (_ & -> & _). congruence.
    + destruct (H1 F) as (F1 & _ & S1). destruct (H2 F1) as (F2 & O2 & k & Ek).
      repeat split; [assumption..|]. intros _.
      exists (repeat (L_, c) (S k)). split; [constructor|]. intros dc.
      now rewrite lstream_app, S1, Ek.
  - eapply hsat_weaken; [apply if_reset_exact|]. intros w o w' e0 (-> & F' & _ & ->) F. unfold ff in *.
    repeat split; [congruence|discriminate|]. intros _. exists []. split; [constructor|]. reflexivity.
  - eapply hsat_weaken; [apply hsat_ev|]. intros w o w' e0 (-> & -> & ->) F.
    repeat split; [assumption|discriminate|]. intros _. exists []. split; [constructor|]. intros dc. reflexivity.
Qed.

(** C10(d): in a fault-free world, when the call returns normally, the logical stream on the wire
    is the concatenation, call by call, of the intended streams — whatever the write mode, the
    chunking and the previous D/C level. *)
Theorem expand_stream cfg rho : forall t d w, ff w ->
  match expand cfg rho t d w with
  | (OOk, _, _, evs) =>
      exists ss, Forall2 (stream_ok rho) (calls t) ss /\ forall dc, lstream dc evs = concat ss
  | _ => True
  end.
Proof.
  intros t d w F. unfold expand.
  assert (G : forall t d w acc, ff w ->
     exists o w' d' evs, expand_items cfg rho t d w acc = (o, w', d', rev evs ++ acc) /\
       (o = OOk -> exists ss, Forall2 (stream_ok rho) (calls t) ss /\ forall dc, lstream dc evs = concat ss)).
  { clear. induction t as [|x r IH]; intros d w acc F; cbn [expand_items].
    - exists OOk, w, d, []. split; [reflexivity|]. intros _. exists []. split; [constructor|reflexivity].
    - destruct x as [i|d1|]; cbn [calls] in *.
      + destruct (expand_call_stream cfg rho i w acc) as (o & w1 & e1 & E & HQ). rewrite E.
        destruct (HQ F) as (F1 & O1 & S1). destruct o.
        * destruct (IH d w1 (rev e1 ++ acc) F1) as (o2 & w2 & d2 & e2 & E2 & S2). rewrite E2.
          exists o2, w2, d2, (e1 ++ e2). split; [now rewrite rev_app_distr, app_assoc|].
          intros Ho. destruct (S1 eq_refl) as (s1 & K1 & L1). destruct (S2 Ho) as (ss & K2 & L2).
          exists (s1 :: ss). split; [now constructor|]. intros dc. cbn [concat].
          now rewrite lstream_app, L1, L2.
        * exists OErr, w1, d, e1. split; [reflexivity|discriminate].
        * exists OPanic, w1, d, e1. split; [reflexivity|discriminate].
        * exists ODiverged, w1, d, e1. split; [reflexivity|discriminate].
      + apply IH; assumption.
      + exists OPanic, w, d, []. split; [reflexivity|discriminate]. }
  destruct (G t d w [] F) as (o & w' & d' & evs & E & S). rewrite E.
  rewrite rev_append_rev, !app_nil_r, rev_involutive. destruct o; auto.
Qed.

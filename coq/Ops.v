(** * Ops: the API operations of the 27 trait drivers and the driver-model record *)
From Coq Require Import List NArith Bool String.
From EPD Require Import Iface.
Import ListNotations.
Open Scope N_scope.

(** Buffers appear as their length only (F2 of DESIGN.md); their bytes are [DArg call arg ..]. *)
Inductive op :=
| OSleep | OWakeUp
| OSetBg (c : N) | OGetBg | OWidth | OHeight
| OUpdateFrame (len : N)
| OUpdatePartial (len x y w h : N)
| ODisplay
| OUpdateAndDisplay (len : N)
| OClear
| OSetLut (r : option N)                    (* None | Some 0 = Full | Some 1 = Quick *)
| OWaitIdle
(* WaveshareThreeColorDisplay *)
| OUpdateColor (l1 l2 : N) | OUpdateAchromatic (len : N) | OUpdateChromatic (len : N)
(* QuickRefresh *)
| OUpdateOld (len : N) | OUpdateNew (len : N) | ODisplayNew | OUpdateAndDisplayNew (len : N)
| OUpdatePartialOld (len x y w h : N) | OUpdatePartialNew (len x y w h : N)
| OClearPartial (x y w h : N)
(* inherent public methods *)
| OSetPartialBase (len : N)                 (* epd2in13_v2 *)
| OSetRefresh (r : N)                       (* epd2in13_v2 *)
| OSetBorder (c : N)                        (* epd2in13bc, epd2in9bc *)
| ODisplayPartial (x y w h : N)             (* epd2in7b display_partial_frame *)
| OUpdatePartialAchromatic (len x y w h : N)
| OUpdatePartialChromatic (len x y w h : N)
| OUpdateAndDisplayBase (l1 : N) (l2 : option N)   (* epd2in9b_v4 *)
| ODisplayFramePartial                      (* epd2in9b_v4 *)
| OShiftDisplay (x y w h : N)               (* epd4in2 *)
| OShow7Block                               (* epd7in3f *)
| OUpdatePartial2 (len x y w h : N).        (* epd7in5b_v2 *)

(** feature switches of the crate that change driver behaviour *)
Record feat := mkFeat { f_v2 : bool (* epd2in13_v2 (true) vs epd2in13_v3 *) ; f_alt : bool (* type_a_alternative_faster_lut *) }.

Record driver := mkDriver {
  d_W : N; d_H : N;
  d_sbw : bool;                       (* SINGLE_BYTE_WRITE *)
  d_init : dstate;                    (* fields set by [new] before [init] runs *)
  d_new : M unit;                     (* what [new] does after building the interface *)
  d_exec : N -> op -> option (M rval) (* call index -> op -> body; None = no such method *)
}.

Definition d0 : dstate := mkD cWhite 0 false false 0 None.

Definition unit_ (m : M unit) : option (M rval) := Some (m ;; ret RUnit).

(** * Big.Tiling: [write_window_data] cuts a window exactly along the seams of the four controllers *)
From Coq Require Import List NArith ZArith Bool Lia ZifyBool ZifyNat ZifyN.
From EPD Require Import Pure.Rect Pure.RectProofs Big.Model Big.Spec Big.Pins Big.Window.
Import ListNotations.
Open Scope N_scope.
Ltac Zify.zify_post_hook ::= Z.div_mod_to_equations.

Arguments N.add : simpl never.
Arguments N.sub : simpl never.
Arguments N.mul : simpl never.
Arguments N.div : simpl never.
Arguments N.modulo : simpl never.
Arguments N.ltb : simpl never.
Arguments N.eqb : simpl never.
Arguments N.leb : simpl never.
Arguments N.land : simpl never.
Arguments N.lor : simpl never.
Arguments N.max : simpl never.
Arguments N.min : simpl never.

Lemma window_ok_inside win : window_ok win -> window_inside win.
Proof. unfold window_ok, window_inside. tauto. Qed.

(** ** the wrap-around of short buffers *)
Lemma row_offset_spec l r nr row : 0 < nr -> 0 < l + r ->
  row_offset l r (nr * (l + r)) row = (row mod nr) * (l + r).
Proof.
  intros Hn Hb. unfold row_offset. cbv zeta.
  destruct (row * (l + r) <? nr * (l + r)) eqn:E.
  - apply N.ltb_lt in E. assert (Hlt : row < nr) by nia.
    rewrite (N.mod_small row nr Hlt). reflexivity.
  - apply N.mul_mod_distr_r; lia.
Qed.

(** ** the logical transfers expected for one controller *)
Definition chip_block (k tc : N) (win : rect) (nr : N) (c : chip) : list (N * dexp) :=
  if part_nonempty win c then
    (ctl_of c, DLit [tc]) ::
    map (fun r => (N.lor (ctl_of c) CS_DATA, row_slice k win nr c r))
        (nseq (first_row win c) (part_rows win c))
  else [].

Lemma nseq_shift {X} (f : N -> X) a n : map f (nseq a n) = map (fun i => f (a + i)) (nseq 0 n).
Proof.
  unfold nseq. rewrite !map_map. apply map_ext. intros i. f_equal.
Qed.

Lemma in_nseq0 y n : In y (nseq 0 n) -> y < n.
Proof.
  unfold nseq. intros H. apply in_map_iff in H. destruct H as (i & <- & Hi).
  apply in_seq in Hi. lia.
Qed.

Lemma block_generic k tc win nr c (bg : N -> N) :
  (part_nonempty win c = true -> forall y, y < part_rows win c ->
     bg y = ((first_row win c + y) mod nr) * row_bytes win + col_start win c) ->
  (if part_nonempty win c then
     (ctl_of c, DLit [tc]) ::
     map (fun y => (N.lor (ctl_of c) CS_DATA, DArg k 0 (bg y) (part_bytes win c)))
         (nseq 0 (part_rows win c))
   else []) = chip_block k tc win nr c.
Proof.
  intros H. unfold chip_block. destruct (part_nonempty win c); [|reflexivity].
  f_equal. rewrite (nseq_shift _ (first_row win c)). apply map_ext_in. intros y Hy. apply in_nseq0 in Hy.
  unfold row_slice. rewrite (H eq_refl y Hy). reflexivity.
Qed.

Section Geometry.
  Variable win : rect.
  Hypothesis Hwin : window_ok win.

  Let top := part_rows win S2.
  Let bottom := part_rows win S1.
  Let left := part_bytes win S2.
  Let right := part_bytes win S1.

  Lemma left_right : left + right = row_bytes win.
  Proof.
    destruct Hwin as (A1 & A2 & A3 & A4 & A5 & A6).
    unfold left, right, part_bytes, row_bytes, px0, px1. cbn [chip_x0 chip_w]. lia.
  Qed.

  Lemma row_bytes_pos : 0 < row_bytes win.
  Proof. destruct Hwin as (A1 & A2 & A3 & A4 & A5 & A6). unfold row_bytes. lia. Qed.

  Lemma top_bottom : top + bottom = rh win.
  Proof.
    destruct Hwin as (A1 & A2 & A3 & A4 & A5 & A6).
    unfold top, bottom, part_rows, py0, py1. unfold chip_h; cbn [chip_y0]. lia.
  Qed.

  Lemma nonempty_S2 : part_nonempty win S2 = (0 <? top) && (0 <? left).
  Proof.
    destruct Hwin as (A1 & A2 & A3 & A4 & A5 & A6).
    unfold part_nonempty, top, left, part_rows, part_bytes, px0, px1, py0, py1.
    unfold chip_h; cbn [chip_x0 chip_w chip_y0]. lia.
  Qed.
  Lemma nonempty_M2 : part_nonempty win M2 = (0 <? top) && (0 <? right).
  Proof.
    destruct Hwin as (A1 & A2 & A3 & A4 & A5 & A6).
    unfold part_nonempty, top, right, part_rows, part_bytes, px0, px1, py0, py1.
    unfold chip_h; cbn [chip_x0 chip_w chip_y0]. lia.
  Qed.
  Lemma nonempty_M1 : part_nonempty win M1 = (0 <? bottom) && (0 <? left).
  Proof.
    destruct Hwin as (A1 & A2 & A3 & A4 & A5 & A6).
    unfold part_nonempty, bottom, left, part_rows, part_bytes, px0, px1, py0, py1.
    unfold chip_h; cbn [chip_x0 chip_w chip_y0]. lia.
  Qed.
  Lemma nonempty_S1 : part_nonempty win S1 = (0 <? bottom) && (0 <? right).
  Proof.
    destruct Hwin as (A1 & A2 & A3 & A4 & A5 & A6).
    unfold part_nonempty, bottom, right, part_rows, part_bytes, px0, px1, py0, py1.
    unfold chip_h; cbn [chip_x0 chip_w chip_y0]. lia.
  Qed.

  (** where a controller's share starts inside the window *)
  Lemma first_row_upper : first_row win S2 = 0 /\ first_row win M2 = 0.
  Proof. unfold first_row, py0. cbn [chip_y0]. lia. Qed.
  Lemma first_row_lower : 0 < bottom -> first_row win M1 = top /\ first_row win S1 = top.
  Proof.
    unfold first_row, top, bottom, part_rows, py0, py1. unfold chip_h; cbn [chip_y0]. lia.
  Qed.
  Lemma col_start_left : col_start win S2 = 0 /\ col_start win M1 = 0.
  Proof. unfold col_start, px0. cbn [chip_x0]. lia. Qed.
  Lemma col_start_right : 0 < right -> col_start win M2 = left /\ col_start win S1 = left.
  Proof.
    destruct Hwin as (A1 & A2 & A3 & A4 & A5 & A6).
    unfold col_start, left, right, part_bytes, px0, px1. cbn [chip_x0 chip_w]. lia.
  Qed.

  Variable nr : N.
  Hypothesis Hnr : 0 < nr.
  Let len := nr * row_bytes win.

  Lemma ro_spec row : row_offset left right len row = (row mod nr) * row_bytes win.
  Proof.
    unfold len. rewrite <- left_right. apply row_offset_spec; [exact Hnr|].
    rewrite left_right. apply row_bytes_pos.
  Qed.

  Lemma ro_bound row : row_offset left right len row + left + right <= len.
  Proof.
    rewrite ro_spec. unfold len. pose proof left_right as LR. pose proof row_bytes_pos as RP.
    assert (row mod nr < nr) by (apply N.mod_lt; lia). nia.
  Qed.

  Lemma len_nonzero : negb (len =? 0) = true.
  Proof. unfold len. pose proof row_bytes_pos. apply negb_true_iff, N.eqb_neq. nia. Qed.

  Variables k tc : N.

  (** the transfers of [write_window_data], in the driver's own terms *)
  Definition code_ws : list (N * dexp) :=
    ((if 0 <? top then
        (if 0 <? left then
           [(CS_S2, DLit [tc])] ++
           map (fun y => (N.lor CS_S2 CS_DATA, DArg k 0 (row_offset left right len y) left)) (nseq 0 top)
         else []) ++
        (if 0 <? right then
           [(CS_M2, DLit [tc])] ++
           map (fun y => (N.lor CS_M2 CS_DATA, DArg k 0 (row_offset left right len y + left) right)) (nseq 0 top)
         else [])
      else []) ++
     (if 0 <? bottom then
        (if 0 <? left then
           [(CS_M1, DLit [tc])] ++
           map (fun y => (N.lor CS_M1 CS_DATA, DArg k 0 (row_offset left right len (top + y)) left)) (nseq 0 bottom)
         else []) ++
        (if 0 <? right then
           [(CS_S1, DLit [tc])] ++
           map (fun y => (N.lor CS_S1 CS_DATA, DArg k 0 (row_offset left right len (top + y) + left) right)) (nseq 0 bottom)
         else [])
      else [])).

  Lemma if_app2 {X} (t l r : bool) (a b : list X) :
    (if t then (if l then a else []) ++ (if r then b else []) else []) =
    (if t && l then a else []) ++ (if t && r then b else []).
  Proof. destruct t, l, r; reflexivity. Qed.

  Lemma code_ws_spec : code_ws = flat_map (chip_block k tc win nr) all_chips.
  Proof.
    unfold code_ws. rewrite !if_app2. cbn [flat_map all_chips]. rewrite app_nil_r, <- app_assoc.
    rewrite <- nonempty_S2, <- nonempty_M2, <- nonempty_M1, <- nonempty_S1.
    f_equal; [|f_equal; [|f_equal]].
    - apply (block_generic k tc win nr S2 (fun y => row_offset left right len y)).
      intros _ y _. rewrite ro_spec. destruct first_row_upper as [-> _].
      destruct col_start_left as [-> _]. rewrite N.add_0_l, N.add_0_r. reflexivity.
    - apply (block_generic k tc win nr M2 (fun y => row_offset left right len y + left)).
      intros NE y _. rewrite ro_spec. destruct first_row_upper as [_ ->].
      rewrite nonempty_M2 in NE. apply andb_true_iff in NE. destruct NE as [_ NE].
      apply N.ltb_lt in NE. destruct (col_start_right NE) as [-> _]. rewrite N.add_0_l. reflexivity.
    - apply (block_generic k tc win nr M1 (fun y => row_offset left right len (top + y))).
      intros NE y _. rewrite ro_spec.
      rewrite nonempty_M1 in NE. apply andb_true_iff in NE. destruct NE as [NE _].
      apply N.ltb_lt in NE. destruct (first_row_lower NE) as [-> _].
      destruct col_start_left as [_ ->]. rewrite N.add_0_r. reflexivity.
    - apply (block_generic k tc win nr S1 (fun y => row_offset left right len (top + y) + left)).
      intros NE y _. rewrite ro_spec.
      rewrite nonempty_S1 in NE. apply andb_true_iff in NE. destruct NE as [NE1 NE2].
      apply N.ltb_lt in NE1, NE2. destruct (first_row_lower NE1) as [_ ->].
      destruct (col_start_right NE2) as [_ ->]. reflexivity.
  Qed.

  Lemma ok_bind_val {A} (m : B A) (f : A -> B unit) a ws :
    (forall cs, runs m cs (Some a) cs []) -> ok (f a) ws -> ok (bind m f) ws.
  Proof.
    intros Hm Hf cs. destruct (Hf cs) as [cs' R]. exists cs'.
    change ws with ([] ++ ws). eapply runs_bind; [apply Hm|exact R].
  Qed.

  Lemma ok_write_window_data : ok (write_window_data k tc win len) code_ws.
  Proof.
    pose proof (window_ok_inside win Hwin) as Hin.
    unfold write_window_data.
    eapply ok_bind_val; [intros cs; apply runs_assert_true; exact len_nonzero|]. cbv beta.
    eapply ok_bind_val; [intros cs; apply runs_lift_some; exact (intersect_closed win S2 Hin)|]. cbv beta.
    eapply ok_bind_val; [intros cs; apply runs_lift_some; exact (intersect_closed win S1 Hin)|].
    cbv beta zeta. cbn [rw rh].
    eapply ok_eq.
    - apply ok_bind.
      + apply ok_when; intros HT. apply ok_bind.
        * apply ok_when; intros HL. apply ok_bind; [apply ok_cmd|].
          apply (ok_loop (N.lor CS_S2 CS_DATA) k len (fun y => row_offset left right len y) left top).
          intros y _. pose proof (ro_bound y). lia.
        * apply ok_when; intros HR. apply ok_bind; [apply ok_cmd|].
          apply (ok_loop (N.lor CS_M2 CS_DATA) k len (fun y => row_offset left right len y + left) right top).
          intros y _. pose proof (ro_bound y). lia.
      + apply ok_when; intros HB. apply ok_bind.
        * apply ok_when; intros HL. apply ok_bind; [apply ok_cmd|].
          apply (ok_loop (N.lor CS_M1 CS_DATA) k len (fun y => row_offset left right len (top + y)) left bottom).
          intros y _. pose proof (ro_bound (top + y)). lia.
        * apply ok_when; intros HR. apply ok_bind; [apply ok_cmd|].
          apply (ok_loop (N.lor CS_S1 CS_DATA) k len (fun y => row_offset left right len (top + y) + left) right bottom).
          intros y _. pose proof (ro_bound (top + y)). lia.
    - reflexivity.
  Qed.

  Lemma ok_write_window_data_spec :
    ok (write_window_data k tc win (nr * (rw win / 8))) (flat_map (chip_block k tc win nr) all_chips).
  Proof. rewrite <- code_ws_spec. exact ok_write_window_data. Qed.
End Geometry.

(** ** what each controller sees *)
Lemma chip_view_app c a b : chip_view c (a ++ b) = chip_view c a ++ chip_view c b.
Proof. unfold chip_view. apply flat_map_app. Qed.

Lemma selected_sel c c' dc : selected (sel [c'] dc) c = chip_eqb c c'.
Proof. destruct c, c'; reflexivity. Qed.
Lemma dc_of_sel c l dc : dc_of (sel l dc) c = dc.
Proof. destruct c; reflexivity. Qed.

Lemma chip_view_cons_sel c c' dc e ws :
  chip_view c ((sel [c'] dc, e) :: ws) = (if chip_eqb c c' then [(dc, e)] else []) ++ chip_view c ws.
Proof.
  unfold chip_view. cbn [flat_map fst snd]. rewrite selected_sel, dc_of_sel. reflexivity.
Qed.

Lemma chip_view_map_sel {X} c c' dc (f : X -> dexp) l :
  chip_view c (map (fun r => (sel [c'] dc, f r)) l) =
  if chip_eqb c c' then map (fun r => (dc, f r)) l else [].
Proof.
  induction l as [|a l IH]; cbn [map]; [destruct (chip_eqb c c'); reflexivity|].
  rewrite chip_view_cons_sel, IH. destruct (chip_eqb c c'); reflexivity.
Qed.

Lemma onwire_chip_block k tc win nr c :
  map onwire (chip_block k tc win nr c) =
  if part_nonempty win c then
    (sel [c] false, DLit [tc]) ::
    map (fun r => (sel [c] true, row_slice k win nr c r)) (nseq (first_row win c) (part_rows win c))
  else [].
Proof.
  unfold chip_block. destruct (part_nonempty win c); [|reflexivity].
  cbn [map]. unfold onwire at 1. cbn [fst snd]. rewrite decode_ctl, map_map.
  unfold onwire. cbn [fst snd]. rewrite decode_ctl_data. reflexivity.
Qed.

Lemma view_chip_block k tc win nr c c' :
  chip_view c (map onwire (chip_block k tc win nr c')) =
  if chip_eqb c c' then chip_expect k tc win nr c' else [].
Proof.
  rewrite onwire_chip_block. unfold chip_expect.
  destruct (part_nonempty win c'); [|destruct (chip_eqb c c'); reflexivity].
  rewrite chip_view_cons_sel, chip_view_map_sel. destruct (chip_eqb c c'); reflexivity.
Qed.

Lemma view_all_blocks k tc win nr c :
  chip_view c (map onwire (flat_map (chip_block k tc win nr) all_chips)) = chip_expect k tc win nr c.
Proof.
  cbn [flat_map all_chips]. rewrite !map_app, !chip_view_app, !view_chip_block.
  destruct c; cbn [chip_eqb app]; rewrite ?app_nil_r; reflexivity.
Qed.

(** one controller at a time, both D/C lines alike *)
Definition one_chip (pe : pstate * dexp) : Prop :=
  nsel (fst pe) = 1%nat /\ p_dc1 (fst pe) = p_dc2 (fst pe).

Lemma one_chip_sel c dc e : one_chip (sel [c] dc, e).
Proof. destruct c, dc; split; reflexivity. Qed.

Lemma one_chip_block k tc win nr c : Forall one_chip (map onwire (chip_block k tc win nr c)).
Proof.
  rewrite onwire_chip_block. destruct (part_nonempty win c); [|constructor].
  constructor; [apply one_chip_sel|]. apply Forall_forall. intros x Hx.
  apply in_map_iff in Hx. destruct Hx as (r & <- & _). apply one_chip_sel.
Qed.

Lemma one_chip_all k tc win nr :
  Forall one_chip (map onwire (flat_map (chip_block k tc win nr) all_chips)).
Proof.
  cbn [flat_map all_chips]. rewrite !map_app.
  repeat (apply Forall_app; split); try apply one_chip_block. constructor.
Qed.

(** ** B: tiling exactness of [write_window_data] *)
Lemma write_window_data_tiling : forall k tc win nr cs,
  window_ok win -> 0 < nr ->
  exists cs' t,
    write_window_data k tc win (nr * (rw win / 8)) cs = (Some tt, cs', t) /\
    (forall c, chip_view c (wire (decode cs) t) = chip_expect k tc win nr c) /\
    Forall one_chip (wire (decode cs) t) /\
    reads (decode cs) t = [] /\
    pins_after (decode cs) t = decode cs' /\ marker_after cs t = cs'.
Proof.
  intros k tc win nr cs Hw Hn.
  destruct (ok_write_window_data_spec win Hw nr Hn k tc cs) as [cs' R].
  destruct (runs_wire _ _ _ _ _ R) as (t & E & W & P & M & Rd).
  exists cs', t. split; [exact E|]. rewrite W. repeat split; try assumption.
  - intros c. apply view_all_blocks.
  - apply one_chip_all.
Qed.

(** a controller the window does not touch gets nothing at all *)
Lemma untouched_chip_silent : forall k tc win nr c,
  part_nonempty win c = false -> chip_expect k tc win nr c = [].
Proof. intros k tc win nr c H. unfold chip_expect. rewrite H. reflexivity. Qed.

(** ** the public methods *)
Lemma ok_call (m : B unit) ws kd : ok m ws -> forall cs,
  exists t, returning kd (bind m (fun _ => flush)) cs = (Some kd, 0, t) /\
    wire (decode cs) t = map onwire ws /\ pins_after (decode cs) t = released /\
    marker_after cs t = 0 /\ reads (decode cs) t = [].
Proof.
  intros H cs. destruct (H cs) as [c1 R1].
  assert (R2 : runs (bind m (fun _ => flush)) cs (Some tt) 0 (ws ++ []))
    by (eapply runs_bind; [exact R1|apply runs_flush]).
  assert (R3 : runs (returning kd (bind m (fun _ => flush))) cs (Some kd) 0 ((ws ++ []) ++ []))
    by (unfold returning; eapply runs_bind; [exact R2|apply runs_ret]).
  rewrite !app_nil_r in R3. destruct (runs_wire _ _ _ _ _ R3) as (t & E & W & P & M & Rd).
  exists t. repeat split; assumption.
Qed.

Lemma window_ok_full : window_ok FULL_RECT.
Proof. unfold window_ok, FULL_RECT, WIDTH, HEIGHT. cbn [rx ry rw rh]. lia. Qed.

Definition plane_cmd (plane : bool) : N := if plane then 0x13 else 0x10.

Lemma write_data_full_tiling : forall k nr (plane : bool), 0 < nr ->
  exists t,
    exec k (if plane then OWriteData2 (nr * 163) else OWriteData1 (nr * 163)) 0 = (Some KUnit, 0, t) /\
    (forall c, chip_view c (wire released t) = chip_expect k (plane_cmd plane) FULL_RECT nr c) /\
    Forall one_chip (wire released t) /\
    reads released t = [] /\ pins_after released t = released.
Proof.
  intros k nr plane Hn.
  pose proof (ok_write_window_data_spec FULL_RECT window_ok_full nr Hn k (plane_cmd plane)) as H.
  change (rw FULL_RECT / 8) with 163 in H.
  destruct (ok_call _ _ KUnit H 0) as (t & E & W & P & M & Rd).
  exists t. rewrite decode_0 in *. rewrite W.
  split; [destruct plane; exact E|]. repeat split; try assumption.
  - intros c. apply view_all_blocks.
  - apply one_chip_all.
Qed.

Lemma view_all_cmd c e : chip_view c (map onwire [(CS_ALL, e)]) = [(false, e)].
Proof. destruct c; reflexivity. Qed.

Lemma view_pw_traffic c blk :
  chip_view c (map onwire (pw_traffic blk)) = [(false, DLit [0x90]); (true, DLit (blk c))].
Proof. destruct c; reflexivity. Qed.

Definition data_one_chip (pe : pstate * dexp) : Prop :=
  p_dc1 (fst pe) = p_dc2 (fst pe) /\ (p_dc1 (fst pe) = true -> nsel (fst pe) = 1%nat).

Lemma one_chip_data pe : one_chip pe -> data_one_chip pe.
Proof. intros [H1 H2]. split; [exact H2|intros _; exact H1]. Qed.

Lemma write_data_partial_tiling : forall k nr (plane : bool) win, window_ok win -> 0 < nr ->
  exists (blk : chip -> list N) t,
    exec k (if plane then OWriteData2Partial win (nr * (rw win / 8))
            else OWriteData1Partial win (nr * (rw win / 8))) 0 = (Some KUnit, 0, t) /\
    (forall c, pw_encodes (blk c) (pw_fields win c)) /\
    (forall c, chip_view c (wire released t) =
               [(false, DLit [0x91]); (false, DLit [0x90]); (true, DLit (blk c))] ++
               chip_expect k (plane_cmd plane) win nr c ++ [(false, DLit [0x92])]) /\
    Forall data_one_chip (wire released t) /\
    reads released t = [] /\ pins_after released t = released.
Proof.
  intros k nr plane win Hw Hn.
  destruct (ok_setup_partial_windows win (window_ok_inside win Hw)) as (blk & Enc & Hs).
  pose proof (ok_write_window_data_spec win Hw nr Hn k (plane_cmd plane)) as Hd.
  assert (Hp : ok (write_partial k (plane_cmd plane) win (nr * (rw win / 8)))
                  ([(CS_ALL, DLit [PartialIn])] ++ pw_traffic blk ++
                   flat_map (chip_block k (plane_cmd plane) win nr) all_chips ++
                   [(CS_ALL, DLit [PartialOut])])).
  { unfold write_partial. eapply ok_bind_val.
    - intros cs. apply runs_assert_true. destruct Hw as (A1 & A2 & _).
      rewrite A1, A2. reflexivity.
    - apply ok_bind; [apply ok_cmd|]. apply ok_bind; [exact Hs|].
      apply ok_bind; [exact Hd|apply ok_cmd]. }
  destruct (ok_call _ _ KUnit Hp 0) as (t & E & W & P & M & Rd).
  exists blk, t. rewrite decode_0 in *. rewrite W.
  split; [destruct plane; exact E|]. split; [exact Enc|]. repeat split; try assumption.
  - intros c. rewrite !map_app, !chip_view_app, !view_all_cmd, view_pw_traffic, view_all_blocks.
    reflexivity.
  - rewrite !map_app. repeat (apply Forall_app; split).
    + constructor; [|constructor]. split; [reflexivity|discriminate].
    + rewrite onwire_pw_traffic. cbn [flat_map all_chips app].
      repeat constructor; try discriminate.
    + eapply Forall_impl; [|apply one_chip_all]. intros pe. apply one_chip_data.
    + constructor; [|constructor]. split; [reflexivity|discriminate].
Qed.

(** ** byte-level reading: every window byte exactly once, at the matching local position *)
Lemma nth_error_nseq a n i : (i < N.to_nat n)%nat -> nth_error (nseq a n) i = Some (a + N.of_nat i).
Proof.
  intros H. unfold nseq.
  apply (map_nth_error (fun i : nat => a + N.of_nat i) i (seq 0 (N.to_nat n))).
  rewrite (nth_error_nth' _ 0%nat) by (rewrite seq_length; exact H).
  rewrite seq_nth by exact H. reflexivity.
Qed.

Lemma nseq_length a n : length (nseq a n) = N.to_nat n.
Proof. unfold nseq. rewrite map_length, seq_length. reflexivity. Qed.

Lemma nth_error_flat_map_uniform {X Y} (f : X -> list Y) (n : nat) l : forall i j a,
  (forall x, In x l -> length (f x) = n) -> nth_error l i = Some a -> (j < n)%nat ->
  nth_error (flat_map f l) (i * n + j) = nth_error (f a) j.
Proof.
  induction l as [|x l IH]; intros i j a Hlen Hi Hj; [destruct i; discriminate|].
  cbn [flat_map]. destruct i as [|i]; cbn [nth_error] in Hi.
  - injection Hi as ->. rewrite nth_error_app1 by (rewrite (Hlen a (in_eq _ _)); lia).
    reflexivity.
  - rewrite nth_error_app2 by (rewrite (Hlen x (in_eq _ _)); lia).
    rewrite (Hlen x (in_eq _ _)).
    replace (S i * n + j - n)%nat with (i * n + j)%nat by lia.
    apply IH; [intros y Hy; apply Hlen; right; exact Hy|exact Hi|exact Hj].
Qed.

Lemma length_flat_map_uniform {X Y} (f : X -> list Y) (n : nat) l :
  (forall x, In x l -> length (f x) = n) -> length (flat_map f l) = (length l * n)%nat.
Proof.
  induction l as [|x l IH]; intros Hlen; [reflexivity|].
  cbn [flat_map length]. rewrite app_length, (Hlen x (in_eq _ _)), IH; [lia|].
  intros y Hy. apply Hlen. right. exact Hy.
Qed.

Lemma flat_map_map {X Y Z} (g : X -> Y) (f : Y -> list Z) l :
  flat_map f (map g l) = flat_map (fun x => f (g x)) l.
Proof. induction l as [|a l IH]; cbn [map flat_map]; [reflexivity|]. rewrite IH. reflexivity. Qed.

Lemma data_offsets_expect k tc win nr c : part_nonempty win c = true ->
  data_offsets (chip_expect k tc win nr c) =
  flat_map (fun r => nseq ((r mod nr) * row_bytes win + col_start win c) (part_bytes win c))
           (nseq (first_row win c) (part_rows win c)).
Proof.
  intros NE. unfold chip_expect, data_offsets. rewrite NE. cbn [flat_map fst snd app].
  rewrite flat_map_map. reflexivity.
Qed.

Lemma data_count k tc win nr c :
  length (data_offsets (chip_expect k tc win nr c)) =
  N.to_nat (if part_nonempty win c then part_rows win c * part_bytes win c else 0).
Proof.
  destruct (part_nonempty win c) eqn:NE.
  - rewrite (data_offsets_expect k tc win nr c NE).
    rewrite (length_flat_map_uniform _ (N.to_nat (part_bytes win c)))
      by (intros x _; apply nseq_length).
    rewrite nseq_length. lia.
  - unfold chip_expect. rewrite NE. reflexivity.
Qed.

(** the shares of the four controllers add up to the window *)
Lemma total_count win : window_ok win ->
  fold_right N.add 0 (map (fun c => if part_nonempty win c then part_rows win c * part_bytes win c else 0)
                          all_chips) = rh win * (rw win / 8).
Proof.
  intros Hw. cbn [map all_chips fold_right].
  rewrite (nonempty_S2 win Hw), (nonempty_M2 win Hw), (nonempty_M1 win Hw), (nonempty_S1 win Hw).
  pose proof (left_right win Hw) as LR. pose proof (top_bottom win Hw) as TB.
  change (part_rows win M2) with (part_rows win S2). change (part_rows win M1) with (part_rows win S1).
  change (part_bytes win M2) with (part_bytes win S1). change (part_bytes win M1) with (part_bytes win S2).
  unfold row_bytes in LR. rewrite <- LR, <- TB.
  set (t := part_rows win S2). set (b := part_rows win S1).
  set (l := part_bytes win S2). set (r := part_bytes win S1).
  destruct (0 <? t) eqn:Et, (0 <? b) eqn:Eb, (0 <? l) eqn:El, (0 <? r) eqn:Er; cbn [andb]; nia.
Qed.

(** every byte a controller receives is the window byte at that position of its share *)
Lemma delivered_bytes : forall k tc win nr c i, window_ok win -> 0 < nr ->
  part_nonempty win c = true -> i < part_rows win c * part_bytes win c ->
  let r := first_row win c + i / part_bytes win c in
  let j := col_start win c + i mod part_bytes win c in
  nth_error (data_offsets (chip_expect k tc win nr c)) (N.to_nat i)
    = Some ((r mod nr) * (rw win / 8) + j) /\
  r < rh win /\ j < rw win / 8 /\ owner (rx win / 8 + j) (ry win + r) = c.
Proof.
  intros k tc win nr c i Hw Hn NE Hi r j.
  set (nb := part_bytes win c) in *. set (rows := part_rows win c) in *.
  assert (Hnb : 0 < nb) by nia.
  assert (Hq : i / nb < rows) by (apply N.div_lt_upper_bound; lia).
  assert (Hm : i mod nb < nb) by (apply N.mod_lt; lia).
  split.
  - rewrite (data_offsets_expect k tc win nr c NE).
    replace (N.to_nat i) with (N.to_nat (i / nb) * N.to_nat nb + N.to_nat (i mod nb))%nat
      by (rewrite (N.div_mod i nb) at 3 by lia; lia).
    rewrite (nth_error_flat_map_uniform _ (N.to_nat nb) _ _ _ (first_row win c + i / nb)).
    + fold nb. rewrite nth_error_nseq by lia. rewrite N2Nat.id. unfold r, j, row_bytes.
      rewrite N.add_assoc. reflexivity.
    + intros x _. apply nseq_length.
    + fold rows. rewrite nth_error_nseq by lia. rewrite N2Nat.id. reflexivity.
    + lia.
  - unfold r, j. revert Hq Hm. generalize (i / nb) (i mod nb). intros q m Hq Hm.
    clear Hi Hnb r j. subst nb rows. clear i.
    destruct Hw as (A1 & A2 & A3 & A4 & A5 & A6).
    unfold part_nonempty in NE. apply andb_true_iff in NE. destruct NE as [NEx NEy].
    apply N.ltb_lt in NEx, NEy.
    unfold part_rows, part_bytes, first_row, col_start, owner in *.
    unfold px0, px1, py0, py1, chip_h in *.
    destruct c; cbn [chip_x0 chip_y0 chip_w] in *;
      (split; [lia|split; [lia|]]);
      destruct (ry win + _ <? 492) eqn:EY; destruct (rx win / 8 + _ <? 81) eqn:EX;
      try reflexivity; exfalso; lia.
Qed.

(** every window byte reaches the controller that owns it, at its row-major position there *)
Lemma byte_delivery : forall k tc win nr r j, window_ok win -> 0 < nr ->
  r < rh win -> j < rw win / 8 ->
  let c := owner (rx win / 8 + j) (ry win + r) in
  part_nonempty win c = true /\
  first_row win c <= r /\ r - first_row win c < part_rows win c /\
  col_start win c <= j /\ j - col_start win c < part_bytes win c /\
  nth_error (data_offsets (chip_expect k tc win nr c))
            (N.to_nat ((r - first_row win c) * part_bytes win c + (j - col_start win c)))
    = Some ((r mod nr) * (rw win / 8) + j).
Proof.
  intros k tc win nr r j Hw Hn Hr Hj c.
  assert (G : part_nonempty win c = true /\
              first_row win c <= r /\ r - first_row win c < part_rows win c /\
              col_start win c <= j /\ j - col_start win c < part_bytes win c).
  { destruct Hw as (A1 & A2 & A3 & A4 & A5 & A6). unfold c, owner, part_nonempty.
    destruct (ry win + r <? 492) eqn:EY; destruct (rx win / 8 + j <? 81) eqn:EX;
      unfold part_rows, part_bytes, first_row, col_start, px0, px1, py0, py1, chip_h;
      cbn [chip_x0 chip_y0 chip_w]; lia. }
  destruct G as (NE & G1 & G2 & G3 & G4). repeat (split; [assumption|]).
  set (nb := part_bytes win c) in *. set (i := (r - first_row win c) * nb + (j - col_start win c)).
  assert (Hi : i < part_rows win c * nb) by (unfold i; nia).
  destruct (delivered_bytes k tc win nr c i Hw Hn NE Hi) as (D & _).
  fold nb in D.
  assert (Eq : i / nb = r - first_row win c)
    by (unfold i; rewrite N.div_add_l by lia; rewrite (N.div_small _ nb) by lia; lia).
  assert (Em : i mod nb = j - col_start win c)
    by (unfold i; rewrite N.add_comm, N.mod_add by lia; apply N.mod_small; lia).
  rewrite Eq, Em in D.
  replace (first_row win c + (r - first_row win c)) with r in D by lia.
  replace (col_start win c + (j - col_start win c)) with j in D by lia.
  exact D.
Qed.

(** [owner] is the controller whose rectangle contains the byte *)
Lemma owner_geometry : forall X Y c, X < 163 -> Y < 984 ->
  (owner X Y = c <->
   chip_x0 c <= 8 * X /\ 8 * X < chip_x0 c + chip_w c /\
   chip_y0 c <= Y /\ Y < chip_y0 c + chip_h c).
Proof.
  intros X Y c HX HY. unfold owner, chip_h.
  destruct (Y <? 492) eqn:EY; destruct (X <? 81) eqn:EX; destruct c; cbn [chip_x0 chip_y0 chip_w];
    split; intros H; try reflexivity; try discriminate H; try lia.
Qed.

(** * Big.Pins: the chip-select / data-command discipline of the 12.48in driver.

    [runs m cs r cs' ws]: computation [m], entered with [control_state = cs] and the six lines as
    [control_state] says ([decode cs]), produces a trace that, scanned from those lines, looks like
    the sequence [ws] of logical [(control, data)] transfers: at every [SpiBus::write] the lines
    are the decoding of the marker, which is the [control] the write was asked with; afterwards the
    lines are the decoding of the final [control_state].  The relation is closed under the
    combinators of the [B] monad. *)
From Coq Require Import List NArith Bool Lia Arith PeanoNat.
From EPD Require Import Big.Model Big.Spec.
Import ListNotations.
Open Scope N_scope.

Arguments N.add : simpl never.
Arguments N.sub : simpl never.
Arguments N.mul : simpl never.
Arguments N.div : simpl never.
Arguments N.modulo : simpl never.
Arguments N.ltb : simpl never.
Arguments N.eqb : simpl never.
Arguments N.leb : simpl never.
Arguments N.land : simpl never.
Arguments N.lor : simpl never.
Arguments N.testbit : simpl never.

(** ** scanners and concatenation *)
Lemma pins_after_app s t1 t2 : pins_after s (t1 ++ t2) = pins_after (pins_after s t1) t2.
Proof. revert s; induction t1 as [|e t1 IH]; intros s; cbn [app pins_after]; [reflexivity|apply IH]. Qed.

Lemma marker_after_app m t1 t2 : marker_after m (t1 ++ t2) = marker_after (marker_after m t1) t2.
Proof.
  revert m; induction t1 as [|e t1 IH]; intros m; cbn [app marker_after]; [reflexivity|].
  destruct e; apply IH.
Qed.

Lemma xfers_app s m t1 t2 :
  xfers s m (t1 ++ t2) = xfers s m t1 ++ xfers (pins_after s t1) (marker_after m t1) t2.
Proof.
  revert s m; induction t1 as [|e t1 IH]; intros s m; cbn [app xfers pins_after marker_after];
    [reflexivity|].
  destruct e; cbn [pstep app]; rewrite IH; reflexivity.
Qed.

Lemma wire_app s t1 t2 : wire s (t1 ++ t2) = wire s t1 ++ wire (pins_after s t1) t2.
Proof.
  revert s; induction t1 as [|e t1 IH]; intros s; cbn [app wire pins_after]; [reflexivity|].
  destruct e; cbn [pstep app]; rewrite IH; reflexivity.
Qed.

Lemma reads_app s t1 t2 : reads s (t1 ++ t2) = reads s t1 ++ reads (pins_after s t1) t2.
Proof.
  revert s; induction t1 as [|e t1 IH]; intros s; cbn [app reads pins_after]; [reflexivity|].
  destruct e; cbn [pstep app]; rewrite IH; reflexivity.
Qed.

Lemma wire_xfers s m t : wire s t = map (fun x => (fst (fst x), snd x)) (xfers s m t).
Proof.
  revert s m; induction t as [|e t IH]; intros s m; cbn [wire xfers map]; [reflexivity|].
  destruct e; cbn [map fst snd]; try (f_equal); apply IH.
Qed.

(** ** the driver's bit tests against the decoding *)
Lemma land_bit c n : (N.land c (2 ^ n) =? 0) = negb (N.testbit c n).
Proof.
  destruct (N.testbit c n) eqn:E; cbn [negb].
  - apply N.eqb_neq. intro H.
    assert (H1 : N.testbit (N.land c (2 ^ n)) n = true)
      by (rewrite N.land_spec, E, N.pow2_bits_true; reflexivity).
    rewrite H, N.bits_0 in H1. discriminate.
  - apply N.eqb_eq. apply N.bits_inj. intro m. rewrite N.land_spec, N.bits_0.
    destruct (N.eq_dec n m) as [->|Hne]; [rewrite E; reflexivity|].
    rewrite N.pow2_bits_false by assumption. apply andb_false_r.
Qed.

Lemma decode_pins control :
  mkP (N.land control CS_M1 =? 0) (N.land control CS_S1 =? 0) (N.land control CS_M2 =? 0)
      (N.land control CS_S2 =? 0) (negb (N.land control CS_DATA =? 0))
      (negb (N.land control CS_DATA =? 0)) = decode control.
Proof.
  change CS_M1 with (2 ^ 0). change CS_S1 with (2 ^ 1). change CS_M2 with (2 ^ 2).
  change CS_S2 with (2 ^ 3). change CS_DATA with (2 ^ 4).
  rewrite !land_bit, negb_involutive. reflexivity.
Qed.

Lemma decode_0 : decode 0 = released.
Proof. reflexivity. Qed.

(** ** the relation *)
Definition lw (w : N * dexp) : pstate * N * dexp := (decode (fst w), fst w, snd w).

Definition runs {A} (m : B A) (cs : N) (r : option A) (cs' : N) (ws : list (N * dexp)) : Prop :=
  exists t, m cs = (r, cs', t) /\
            pins_after (decode cs) t = decode cs' /\
            marker_after cs t = cs' /\
            xfers (decode cs) cs t = map lw ws /\
            reads (decode cs) t = [].

Lemma runs_ret {A} (a : A) cs : runs (ret a) cs (Some a) cs [].
Proof. eexists; split; [reflexivity|]. repeat split. Qed.

Lemma runs_panic {A} cs : runs (@panic A) cs None cs [].
Proof. eexists; split; [reflexivity|]. repeat split. Qed.

Lemma runs_bind {A C} (m : B A) (f : A -> B C) cs a c1 w1 r c2 w2 :
  runs m cs (Some a) c1 w1 -> runs (f a) c1 r c2 w2 -> runs (bind m f) cs r c2 (w1 ++ w2).
Proof.
  intros (t1 & E1 & P1 & M1' & X1 & R1) (t2 & E2 & P2 & M2' & X2 & R2).
  exists (t1 ++ t2). unfold bind. rewrite E1, E2. split; [reflexivity|].
  rewrite pins_after_app, marker_after_app, xfers_app, reads_app, P1, M1', X1, R1, P2, M2', X2, R2, map_app.
  repeat split.
Qed.

Lemma runs_bind_none {A C} (m : B A) (f : A -> B C) cs c1 w1 :
  runs m cs None c1 w1 -> runs (bind m f) cs None c1 w1.
Proof.
  intros (t1 & E1 & P1 & M1' & X1 & R1). exists t1. unfold bind. rewrite E1. repeat split; assumption.
Qed.

(** events that touch neither the lines nor [control_state] nor the bus data *)
Definition quiet (e : bev) : bool :=
  match e with
  | BFlush | BPollWait _ | BPoll _ | BDelay _ _ | BPanic => true
  | BPin Rst1 _ | BPin Rst2 _ => true
  | _ => false
  end.

Lemma runs_emit e cs : quiet e = true -> runs (emit e) cs (Some tt) cs [].
Proof.
  intros Q. eexists; split; [reflexivity|].
  destruct e as [p l| | | | | | | |]; try discriminate Q; try (repeat split).
  all: destruct p; try discriminate Q; repeat split; destruct (decode cs); reflexivity.
Qed.

Lemma runs_spi_write control data cs :
  runs (spi_write control data) cs (Some tt) control [(control, data)].
Proof.
  unfold runs.
  cbv [spi_write bind control_state when_ negb emit set_pin delay_ns set_control_state ret app].
  destruct (cs =? control) eqn:E.
  - apply N.eqb_eq in E. subst cs. eexists; split; [reflexivity|]. repeat split.
  - eexists; split; [reflexivity|].
    cbn [pins_after pstep set_level marker_after xfers reads
         p_m1 p_s1 p_m2 p_s2 p_dc1 p_dc2 map lw fst snd].
    rewrite decode_pins. repeat split.
Qed.

Lemma runs_flush cs : runs flush cs (Some tt) 0 [].
Proof.
  eexists; split; [reflexivity|]. cbn [pins_after pstep set_level marker_after xfers reads map].
  repeat split.
Qed.

Lemma runs_cmd chips c cs : runs (cmd chips c) cs (Some tt) chips [(chips, DLit [c])].
Proof. apply runs_spi_write. Qed.

Lemma runs_cmd_with_data chips c d cs :
  runs (cmd_with_data chips c d) cs (Some tt) (N.lor chips CS_DATA)
       [(chips, DLit [c]); (N.lor chips CS_DATA, d)].
Proof.
  unfold cmd_with_data.
  change [(chips, DLit [c]); (N.lor chips CS_DATA, d)]
    with ([(chips, DLit [c])] ++ [(N.lor chips CS_DATA, d)]).
  eapply runs_bind; apply runs_spi_write.
Qed.

(** [for_rows]: the transfers are the [flat_map] over the row indices *)
Lemma runs_for_rows (body : N -> B unit) (w : N -> list (N * dexp)) n :
  forall y0 cs,
  (forall i c, (i < n)%nat -> exists c', runs (body (y0 + N.of_nat i)) c (Some tt) c' (w (y0 + N.of_nat i))) ->
  exists cs', runs (for_rows n y0 body) cs (Some tt) cs'
                   (flat_map w (map (fun i => y0 + N.of_nat i) (seq 0 n))).
Proof.
  induction n as [|n IH]; intros y0 cs Hb.
  - exists cs. apply runs_ret.
  - destruct (Hb O cs ltac:(lia)) as [c1 H1].
    destruct (IH (y0 + 1) c1) as [c2 H2].
    { intros i c Hi. destruct (Hb (S i) c) as [c' Hc]; [lia|]. exists c'.
      replace (y0 + 1 + N.of_nat i) with (y0 + N.of_nat (S i)) by lia. exact Hc. }
    exists c2. cbn [for_rows seq map flat_map].
    replace (y0 + N.of_nat 0) with y0 in * by lia.
    rewrite <- seq_shift, map_map.
    erewrite (map_ext (fun i => y0 + N.of_nat (S i))) by (intros i; instantiate (1 := fun i => y0 + 1 + N.of_nat i); cbn beta; lia).
    eapply runs_bind; eassumption.
Qed.

(** ** the general invariant: every helper and every method, for ALL arguments *)

(** a transfer with D/C low carries exactly one literal byte (a command) *)
Definition cmd_shape (w : N * dexp) : Prop :=
  N.testbit (fst w) 4 = false -> exists b, snd w = DLit [b].

Definition good {A} (m : B A) : Prop :=
  forall cs, exists r cs' ws, runs m cs r cs' ws /\ Forall cmd_shape ws.

Lemma good_ret {A} (a : A) : good (ret a).
Proof. intros cs. exists (Some a), cs, []. split; [apply runs_ret|constructor]. Qed.

Lemma good_panic {A} : good (@panic A).
Proof. intros cs. exists None, cs, []. split; [apply runs_panic|constructor]. Qed.

Lemma good_bind {A C} (m : B A) (f : A -> B C) : good m -> (forall a, good (f a)) -> good (bind m f).
Proof.
  intros Hm Hf cs. destruct (Hm cs) as (r & c1 & w1 & R1 & F1). destruct r as [a|].
  - destruct (Hf a c1) as (r2 & c2 & w2 & R2 & F2). exists r2, c2, (w1 ++ w2).
    split; [eapply runs_bind; eassumption|apply Forall_app; split; assumption].
  - exists None, c1, w1. split; [apply runs_bind_none; assumption|assumption].
Qed.

Lemma good_emit e : quiet e = true -> good (emit e).
Proof. intros Q cs. exists (Some tt), cs, []. split; [apply runs_emit; assumption|constructor]. Qed.

Lemma good_when b (m : B unit) : good m -> good (when_ b m).
Proof. intros H. destruct b; [exact H|apply good_ret]. Qed.

Lemma good_assert b : good (assert b).
Proof. destruct b; [apply good_ret|apply good_panic]. Qed.

Lemma good_lift {A} (o : option A) : good (lift o).
Proof. destruct o; [apply good_ret|apply good_panic]. Qed.

Lemma good_slice k len b e : good (slice k len b e).
Proof. unfold slice. destruct (_ && _); [apply good_ret|apply good_panic]. Qed.

Lemma good_for_rows body n : (forall y, good (body y)) -> forall y, good (for_rows n y body).
Proof.
  intros Hb. induction n as [|n IH]; intros y; cbn [for_rows]; [apply good_ret|].
  apply good_bind; [apply Hb|intros _; apply IH].
Qed.

Lemma good_flush : good flush.
Proof. intros cs. exists (Some tt), 0, []. split; [apply runs_flush|constructor]. Qed.

Lemma good_cmd chips c : good (cmd chips c).
Proof.
  intros cs. exists (Some tt), chips, [(chips, DLit [c])]. split; [apply runs_cmd|].
  constructor; [|constructor]. intros _. exists c. reflexivity.
Qed.

Lemma lor_data_bit chips : N.testbit (N.lor chips CS_DATA) 4 = true.
Proof. rewrite N.lor_spec. change CS_DATA with (2 ^ 4). rewrite N.pow2_bits_true. apply orb_true_r. Qed.

Lemma good_data chips d : good (spi_write (N.lor chips CS_DATA) d).
Proof.
  intros cs. exists (Some tt), (N.lor chips CS_DATA), [(N.lor chips CS_DATA, d)].
  split; [apply runs_spi_write|]. constructor; [|constructor].
  unfold cmd_shape; cbn [fst snd]. rewrite lor_data_bit. discriminate.
Qed.

Lemma good_cmd_with_data chips c d : good (cmd_with_data chips c d).
Proof. unfold cmd_with_data. apply good_bind; [apply good_cmd|intros _; apply good_data]. Qed.

Ltac good_step :=
  first
    [ apply good_ret | apply good_cmd_with_data | apply good_cmd | apply good_data | apply good_flush
    | apply good_slice | apply good_lift | apply good_assert
    | apply good_emit; reflexivity
    | apply good_when | apply good_for_rows; intros ?
    | apply good_bind; [|intros ?] ].
Ltac good := repeat good_step.

Lemma good_setup_partial_windows win : good (setup_partial_windows win).
Proof. unfold setup_partial_windows. good. Qed.

Lemma good_write_window_data k c win len : good (write_window_data k c win len).
Proof. unfold write_window_data. good. Qed.

Lemma good_set_mode c : good (set_mode c).
Proof. unfold set_mode. good. Qed.

Lemma good_set_lut k c len rq : good (set_lut k c len rq).
Proof. unfold set_lut. good. Qed.

Lemma good_reset : good reset.
Proof.
  intros cs. exists (Some tt), 0, []. split; [|constructor].
  eexists; split; [reflexivity|]. repeat split.
Qed.

Lemma good_exec k o : o <> OGetStatus -> good (exec k o).
Proof.
  intros Ho. destruct o; try (exfalso; apply Ho; reflexivity); cbn [exec]; unfold returning;
    (apply good_bind; [|intros _; apply good_ret]).
  1: apply good_reset.
  all: unfold wait_ready, busy_chips, delay_ms; good.
Qed.

(** ** every normal return leaves [control_state = 0] *)
Definition ends0 {A} (m : B A) : Prop :=
  forall cs, match m cs with (Some _, cs', _) => cs' = 0 | (None, _, _) => True end.
(** leaves [control_state] alone *)
Definition keeps {A} (m : B A) : Prop :=
  forall cs, match m cs with (_, cs', _) => cs' = cs end.

Lemma ends0_bind_r {A C} (m : B A) (f : A -> B C) : (forall a, ends0 (f a)) -> ends0 (bind m f).
Proof.
  intros Hf cs. unfold bind. destruct (m cs) as [[[a|] c1] t1]; [|exact I].
  specialize (Hf a c1). destruct (f a c1) as [[r c2] t2]. exact Hf.
Qed.

Lemma ends0_bind_l {A C} (m : B A) (f : A -> B C) : ends0 m -> (forall a, keeps (f a)) -> ends0 (bind m f).
Proof.
  intros Hm Hf cs. unfold bind. specialize (Hm cs). destruct (m cs) as [[[a|] c1] t1]; [|exact I].
  specialize (Hf a c1). destruct (f a c1) as [[r c2] t2]. destruct r; [congruence|exact I].
Qed.

Lemma ends0_flush : ends0 flush.
Proof. intros cs. exact eq_refl. Qed.

Lemma keeps_ret {A} (a : A) : keeps (ret a).
Proof. intros cs. reflexivity. Qed.
Lemma keeps_emit e : keeps (emit e).
Proof. intros cs. reflexivity. Qed.

Ltac ends0 :=
  repeat first
    [ apply ends0_flush
    | apply ends0_bind_l; [|intros ?; first [apply keeps_ret | apply keeps_emit]]
    | apply ends0_bind_r; intros ? ].

Lemma ends0_exec k o cs r cs' t :
  o <> OGetBusy -> o <> OIsBusy -> exec k o cs = (r, cs', t) -> r <> None -> cs' = 0.
Proof.
  intros H1 H2 E Hr.
  assert (H : ends0 (exec k o)).
  { destruct o; try solve [exfalso; apply H1; reflexivity | exfalso; apply H2; reflexivity]; cbn [exec]; unfold returning.
    1: (apply ends0_bind_l; [|intros ?; apply keeps_ret]; intros c; exact eq_refl).
    all: try (unfold init, set_mode, write_data1, write_data2, write_data1_partial,
              write_data2_partial, set_lutc, set_lutww, set_lutkw_lutr, set_lutwk_lutw,
              set_lutkk_lutk, set_lutbd, set_lut, refresh_display, begin_refresh_display,
              refresh_display_partial, begin_refresh_display_partial, power_off, hibernate,
              wait_ready; ends0; fail). }
  specialize (H cs). rewrite E in H. destruct r; [exact H|congruence].
Qed.

(** ** A: the theorems about whole calls *)

Definition xfer_ok (x : pstate * N * dexp) : Prop :=
  fst (fst x) = decode (snd (fst x)) /\
  (p_dc1 (fst (fst x)) = false -> exists b, snd x = DLit [b]).

Lemma good_xfers {A} (m : B A) cs r cs' t : good m -> m cs = (r, cs', t) ->
  pins_after (decode cs) t = decode cs' /\ marker_after cs t = cs' /\
  Forall xfer_ok (xfers (decode cs) cs t) /\ reads (decode cs) t = [].
Proof.
  intros G E. destruct (G cs) as (r' & c' & ws & (t' & E' & P & M & X & R) & F).
  rewrite E in E'. injection E' as <- <- <-. repeat split; try assumption.
  rewrite X. clear X. induction F as [|w ws Hw F IH]; cbn [map]; constructor; [|exact IH].
  split; [reflexivity|]. exact Hw.
Qed.

(** get_status drives the lines by hand *)
Definition get_status_writes : list (pstate * N * dexp) :=
  [ (sel [M1] false, 0xFF, DLit [GetStatus]); (sel [S1] false, 0xFF, DLit [GetStatus]);
    (sel [M2] false, 0xFF, DLit [GetStatus]); (sel [S2] false, 0xFF, DLit [GetStatus]) ].
Definition get_status_reads : list (pstate * N) :=
  [ (mkP false true true true true false, 1); (mkP true false true true true false, 1);
    (mkP true true false true false true, 1); (mkP true true true false false true, 1) ].

Lemma get_status_trace k :
  exists t, exec k OGetStatus 0 = (Some KStatus, 0, t) /\
    pins_after released t = released /\ marker_after 0 t = 0 /\
    xfers released 0 t = get_status_writes /\ reads released t = get_status_reads.
Proof. eexists. split; [reflexivity|]. repeat split. Qed.

Lemma bop_status_dec o : {o = OGetStatus} + {o <> OGetStatus}.
Proof. destruct o; first [left; reflexivity | right; discriminate]. Qed.
Lemma bop_busy_dec o : {o = OGetBusy} + {o = OIsBusy} + {o <> OGetBusy /\ o <> OIsBusy}.
Proof.
  destruct o; first [left; left; reflexivity | left; right; reflexivity | right; split; discriminate].
Qed.

(** A1 *)
Lemma released_after_call k o r cs1 t :
  exec k o 0 = (r, cs1, t) -> r <> None ->
  pins_after released t = released /\ cs1 = 0 /\ marker_after 0 t = 0.
Proof.
  intros E Hr.
  destruct (bop_status_dec o) as [->|Ho].
  - destruct (get_status_trace k) as (t' & E' & P & M & _). rewrite E in E'.
    injection E' as -> -> ->. repeat split; assumption.
  - destruct (good_xfers _ _ _ _ _ (good_exec k o Ho) E) as (P & M & _ & _).
    assert (C : cs1 = 0).
    { destruct (bop_busy_dec o) as [[->| ->]|[Hb1 Hb2]].
      - injection E as _ <- _. reflexivity.
      - injection E as _ <- _. reflexivity.
      - eapply ends0_exec; eassumption. }
    rewrite C in P, M. rewrite decode_0 in P. split; [exact P|split; [exact C|exact M]].
Qed.

(** ** helpers for exact traces *)
Lemma runs_eq {A} (m : B A) cs r cs' ws ws' : runs m cs r cs' ws -> ws = ws' -> runs m cs r cs' ws'.
Proof. intros H <-. exact H. Qed.

Lemma runs_lift_some {A} (o : option A) a cs : o = Some a -> runs (lift o) cs (Some a) cs [].
Proof. intros ->. apply runs_ret. Qed.

Lemma runs_assert_true b cs : b = true -> runs (assert b) cs (Some tt) cs [].
Proof. intros ->. apply runs_ret. Qed.

Lemma runs_slice k len b e cs : b <= e -> e <= len ->
  runs (slice k len b e) cs (Some (DArg k 0 b (e - b))) cs [].
Proof.
  intros H1 H2. unfold slice. apply N.leb_le in H1, H2. rewrite H1, H2. apply runs_ret.
Qed.

(** from the logical transfers to what is on the wire *)
Definition onwire (w : N * dexp) : pstate * dexp := (decode (fst w), snd w).

Lemma runs_wire {A} (m : B A) cs r cs' ws : runs m cs r cs' ws ->
  exists t, m cs = (r, cs', t) /\ wire (decode cs) t = map onwire ws /\
            pins_after (decode cs) t = decode cs' /\ marker_after cs t = cs' /\
            reads (decode cs) t = [].
Proof.
  intros (t & E & P & M & X & R). exists t. repeat split; try assumption.
  rewrite (wire_xfers _ cs), X, map_map. reflexivity.
Qed.

(** unit computations that succeed from every [control_state] *)
Definition ok (m : B unit) (ws : list (N * dexp)) : Prop :=
  forall cs, exists cs', runs m cs (Some tt) cs' ws.

Lemma ok_eq m ws ws' : ok m ws -> ws = ws' -> ok m ws'.
Proof. intros H <-. exact H. Qed.

Lemma ok_bind (m m2 : B unit) w1 w2 : ok m w1 -> ok m2 w2 -> ok (bind m (fun _ => m2)) (w1 ++ w2).
Proof.
  intros H1 H2 cs. destruct (H1 cs) as [c1 R1]. destruct (H2 c1) as [c2 R2].
  exists c2. eapply runs_bind; eassumption.
Qed.

Lemma ok_when (b : bool) m ws : (b = true -> ok m ws) -> ok (when_ b m) (if b then ws else []).
Proof.
  intros H. destruct b; [exact (H eq_refl)|]. intros cs. exists cs. apply runs_ret.
Qed.

Lemma ok_cmd chips c : ok (cmd chips c) [(chips, DLit [c])].
Proof. intros cs. exists chips. apply runs_cmd. Qed.

Lemma ok_cmd_with_data chips c d :
  ok (cmd_with_data chips c d) [(chips, DLit [c]); (N.lor chips CS_DATA, d)].
Proof. intros cs. eexists. apply runs_cmd_with_data. Qed.

Lemma flat_map_single {X Y} (g : X -> Y) l : flat_map (fun x => [g x]) l = map g l.
Proof. induction l as [|a l IH]; cbn [flat_map map app]; [reflexivity|]. rewrite IH. reflexivity. Qed.

(** the row loops of [write_window_data] *)
Lemma ok_loop ctl k len (bg : N -> N) nb n :
  (forall y, y < n -> bg y + nb <= len) ->
  ok (for_rows (N.to_nat n) 0 (fun y => bind (slice k len (bg y) (bg y + nb)) (fun d => spi_write ctl d)))
     (map (fun y => (ctl, DArg k 0 (bg y) nb)) (nseq 0 n)).
Proof.
  intros Hb cs.
  destruct (runs_for_rows (fun y => bind (slice k len (bg y) (bg y + nb)) (fun d => spi_write ctl d))
              (fun y => [(ctl, DArg k 0 (bg y) nb)]) (N.to_nat n) 0 cs) as [cs' H].
  - intros i c Hi. exists ctl.
    change [(ctl, DArg k 0 (bg (0 + N.of_nat i)) nb)] with ([] ++ [(ctl, DArg k 0 (bg (0 + N.of_nat i)) nb)]).
    eapply runs_bind.
    + apply runs_slice; [lia|]. apply Hb. lia.
    + replace (bg (0 + N.of_nat i) + nb - bg (0 + N.of_nat i)) with nb by lia. apply runs_spi_write.
  - exists cs'. rewrite flat_map_single in H. unfold nseq. rewrite map_map.
    rewrite map_map in H. exact H.
Qed.

(** ** A3: commands with D/C low, data with D/C high, the same controllers selected *)
Lemma testbit4_small chips : chips < 16 -> N.testbit chips 4 = false.
Proof.
  intros H. destruct (N.eq_dec chips 0) as [->|Hnz]; [reflexivity|].
  apply N.bits_above_log2. apply N.log2_lt_pow2; [lia|exact H].
Qed.

Lemma decode_lor_data chips :
  decode (N.lor chips CS_DATA) =
  mkP (p_m1 (decode chips)) (p_s1 (decode chips)) (p_m2 (decode chips)) (p_s2 (decode chips)) true true.
Proof.
  unfold decode. rewrite !N.lor_spec. cbn [p_m1 p_s1 p_m2 p_s2].
  change (N.testbit CS_DATA 0) with false. change (N.testbit CS_DATA 1) with false.
  change (N.testbit CS_DATA 2) with false. change (N.testbit CS_DATA 3) with false.
  change (N.testbit CS_DATA 4) with true.
  rewrite !orb_false_r, orb_true_r. reflexivity.
Qed.

Lemma cmd_dc_low : forall chips c cs, chips < 16 ->
  exists t, cmd chips c cs = (Some tt, chips, t) /\
    wire (decode cs) t = [(decode chips, DLit [c])] /\
    p_dc1 (decode chips) = false /\ p_dc2 (decode chips) = false /\
    pins_after (decode cs) t = decode chips.
Proof.
  intros chips c cs H. destruct (runs_wire _ _ _ _ _ (runs_cmd chips c cs)) as (t & E & W & P & _).
  exists t. repeat split; try assumption; cbn [decode p_dc1 p_dc2]; apply testbit4_small; exact H.
Qed.

Lemma data_dc_high : forall chips d cs,
  exists t, spi_write (N.lor chips CS_DATA) d cs = (Some tt, N.lor chips CS_DATA, t) /\
    wire (decode cs) t = [(decode (N.lor chips CS_DATA), d)] /\
    decode (N.lor chips CS_DATA) =
      mkP (p_m1 (decode chips)) (p_s1 (decode chips)) (p_m2 (decode chips)) (p_s2 (decode chips))
          true true /\
    pins_after (decode cs) t = decode (N.lor chips CS_DATA).
Proof.
  intros chips d cs.
  destruct (runs_wire _ _ _ _ _ (runs_spi_write (N.lor chips CS_DATA) d cs)) as (t & E & W & P & _).
  exists t. repeat split; try assumption. apply decode_lor_data.
Qed.

(** A2 for every method but get_status, A1 for all *)
Lemma pins_driven_before_transfer : forall k o r cs1 t,
  o <> OGetStatus -> exec k o 0 = (r, cs1, t) ->
  Forall xfer_ok (xfers released 0 t) /\ reads released t = [].
Proof.
  intros k o r cs1 t Ho E.
  destruct (good_xfers _ _ _ _ _ (good_exec k o Ho) E) as (_ & _ & F & R).
  rewrite decode_0 in *. split; assumption.
Qed.

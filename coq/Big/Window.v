(** * Big.Window: the partial-window blocks programmed by [setup_partial_windows] *)
From Coq Require Import List NArith ZArith Bool Lia ZifyBool ZifyNat ZifyN.
From EPD Require Import Pure.Rect Pure.RectProofs Big.Model Big.Spec Big.Pins.
Import ListNotations.
Open Scope N_scope.
Ltac Zify.zify_post_hook ::= Z.div_mod_to_equations.

Arguments N.add : simpl never.
Arguments N.sub : simpl never.
Arguments N.mul : simpl never.
Arguments N.div : simpl never.
Arguments N.modulo : simpl never.
Arguments N.ltb : simpl never.
Arguments N.eqb : simpl never.
Arguments N.leb : simpl never.
Arguments N.land : simpl never.
Arguments N.lor : simpl never.
Arguments N.max : simpl never.
Arguments N.min : simpl never.

(** the driver's rectangle of a controller *)
Definition rect_of (c : chip) : rect :=
  match c with S2 => S2_RECT | M2 => M2_RECT | M1 => M1_RECT | S1 => S1_RECT end.
(** the driver's chip-select bit of a controller *)
Definition ctl_of (c : chip) : N :=
  match c with S2 => CS_S2 | M2 => CS_M2 | M1 => CS_M1 | S1 => CS_S1 end.

Lemma rect_of_geometry c :
  rx (rect_of c) = chip_x0 c /\ ry (rect_of c) = chip_y0 c /\
  rw (rect_of c) = chip_w c /\ rh (rect_of c) = chip_h c.
Proof. destruct c; repeat split. Qed.

Lemma decode_ctl c : decode (ctl_of c) = sel [c] false.
Proof. destruct c; reflexivity. Qed.
Lemma decode_ctl_data c : decode (N.lor (ctl_of c) CS_DATA) = sel [c] true.
Proof. destruct c; reflexivity. Qed.
Lemma decode_all : decode CS_ALL = sel [M1; S1; M2; S2] false.
Proof. reflexivity. Qed.

Lemma edges_rect_of c : edges_ok (rect_of c).
Proof. destruct c; split; reflexivity. Qed.

Lemma edges_window win : window_inside win -> edges_ok win.
Proof. unfold window_inside, edges_ok, u32max. lia. Qed.

(** the part of the window on controller [c], in the controller's own coordinates *)
Definition local_part (win : rect) (c : chip) : rect :=
  mkRect (px0 win c - chip_x0 c) (py0 win c - chip_y0 c)
         (px1 win c - px0 win c) (py1 win c - py0 win c).

Lemma intersect_closed win c : window_inside win ->
  Rect.intersect win (rect_of c) =
  Some (mkRect (px0 win c) (py0 win c) (px1 win c - px0 win c) (py1 win c - py0 win c)).
Proof.
  intros H. rewrite (intersect_defined win (rect_of c) (edges_window win H) (edges_rect_of c)).
  destruct c; reflexivity.
Qed.

Lemma sub_part_closed win c : window_inside win ->
  sub_part win (rect_of c) = Some (local_part win c).
Proof.
  intros H. unfold sub_part. rewrite (intersect_closed win c H). cbn [obind].
  rewrite sub_offset_ok.
  - destruct c; reflexivity.
  - cbn [rx]. destruct (rect_of_geometry c) as (-> & _). unfold px0. lia.
  - cbn [ry]. destruct (rect_of_geometry c) as (_ & -> & _). unfold py0. lia.
Qed.

Lemma sub32_ok a b : b <= a -> sub32 a b = Some (a - b).
Proof. intros H. unfold sub32. apply N.leb_le in H. rewrite H. reflexivity. Qed.

Definition scan_of (c : chip) : option N := if mirrored c then Some (chip_w c) else None.

Lemma partial_window_data_spec win c : window_inside win ->
  exists blk, partial_window_data (local_part win c) (scan_of c) = Some blk /\
              pw_encodes blk (pw_fields win c).
Proof.
  intros [Hx Hy]. unfold partial_window_data, pw_fields, part_nonempty, is_empty, local_part.
  cbn [rx ry rw rh].
  destruct ((px0 win c <? px1 win c) && (py0 win c <? py1 win c)) eqn:NE.
  - apply andb_true_iff in NE. destruct NE as [NEx NEy]. apply N.ltb_lt in NEx, NEy.
    replace ((px1 win c - px0 win c =? 0) || (py1 win c - py0 win c =? 0)) with false
      by (symmetry; apply orb_false_iff; split; apply N.eqb_neq; lia).
    assert (Gx : chip_x0 c <= px0 win c /\ px1 win c <= chip_x0 c + chip_w c /\ chip_w c <= 656)
      by (unfold px0, px1; destruct c; cbn [chip_x0 chip_w]; lia).
    assert (Gy : chip_y0 c <= py0 win c /\ py1 win c <= chip_y0 c + 492)
      by (unfold py0, py1, chip_h; lia).
    assert (Gy0 : chip_y0 c <= 492) by (destruct c; cbn [chip_y0]; lia).
    set (lx := px0 win c - chip_x0 c) in *. set (lw := px1 win c - px0 win c) in *.
    set (ly := py0 win c - chip_y0 c) in *. set (lh := py1 win c - py0 win c) in *.
    set (hs := if mirrored c then chip_w c - lx - lw else lx).
    assert (Hhs : hs + lw <= 656) by (unfold hs; destruct (mirrored c); lia).
    assert (E1 : match scan_of c with
                 | Some width => obind (sub32 width lx) (fun a => sub32 a lw)
                 | None => Some lx
                 end = Some hs).
    { unfold scan_of, hs. destruct (mirrored c); [|reflexivity].
      rewrite sub32_ok by lia. cbn [obind]. rewrite sub32_ok by lia. reflexivity. }
    rewrite E1. cbn [obind].
    rewrite (add32_ok hs lw) by (unfold u32max; lia). cbn [obind].
    rewrite sub32_ok by lia. cbn [obind].
    rewrite (add32_ok ly lh) by (unfold u32max; lia). cbn [obind].
    rewrite sub32_ok by lia. cbn [obind].
    eexists. split; [reflexivity|]. unfold pw_encodes.
    do 8 eexists. split; [reflexivity|]. unfold byte, u8. repeat split; lia.
  - replace ((px1 win c - px0 win c =? 0) || (py1 win c - py0 win c =? 0)) with true.
    + eexists. split; reflexivity.
    + symmetry. apply orb_true_iff. apply andb_false_iff in NE.
      destruct NE as [NE|NE]; apply N.ltb_ge in NE; [left|right]; apply N.eqb_eq; lia.
Qed.

(** the logical transfers of [setup_partial_windows] *)
Definition pw_traffic (blk : chip -> list N) : list (N * dexp) :=
  flat_map (fun c => [(ctl_of c, DLit [PartialWindow]); (N.lor (ctl_of c) CS_DATA, DLit (blk c))])
           all_chips.

Lemma setup_partial_windows_runs win : window_inside win ->
  exists blk : chip -> list N,
    (forall c, pw_encodes (blk c) (pw_fields win c)) /\
    forall cs, runs (setup_partial_windows win) cs (Some tt) (N.lor CS_S1 CS_DATA) (pw_traffic blk).
Proof.
  intros H.
  destruct (partial_window_data_spec win S2 H) as (b1 & E1 & P1).
  destruct (partial_window_data_spec win M2 H) as (b2 & E2 & P2).
  destruct (partial_window_data_spec win M1 H) as (b3 & E3 & P3).
  destruct (partial_window_data_spec win S1 H) as (b4 & E4 & P4).
  exists (fun c => match c with S2 => b1 | M2 => b2 | M1 => b3 | S1 => b4 end).
  split; [intros c; destruct c; assumption|]. intros cs.
  eapply runs_eq.
  - unfold setup_partial_windows.
    eapply runs_bind; [apply runs_lift_some; exact (sub_part_closed win S2 H)|]; cbv beta.
    eapply runs_bind; [apply runs_lift_some; exact (sub_part_closed win M2 H)|]; cbv beta.
    eapply runs_bind; [apply runs_lift_some; exact (sub_part_closed win M1 H)|]; cbv beta.
    eapply runs_bind; [apply runs_lift_some; exact (sub_part_closed win S1 H)|]; cbv beta.
    eapply runs_bind; [apply runs_lift_some; exact E1|]; cbv beta.
    eapply runs_bind; [apply runs_cmd_with_data|]; cbv beta.
    eapply runs_bind; [apply runs_lift_some; exact E2|]; cbv beta.
    eapply runs_bind; [apply runs_cmd_with_data|]; cbv beta.
    eapply runs_bind; [apply runs_lift_some; exact E3|]; cbv beta.
    eapply runs_bind; [apply runs_cmd_with_data|]; cbv beta.
    eapply runs_bind; [apply runs_lift_some; exact E4|]; cbv beta.
    apply runs_cmd_with_data.
  - reflexivity.
Qed.

Lemma ok_setup_partial_windows win : window_inside win ->
  exists blk : chip -> list N,
    (forall c, pw_encodes (blk c) (pw_fields win c)) /\
    ok (setup_partial_windows win) (pw_traffic blk).
Proof.
  intros H. destruct (setup_partial_windows_runs win H) as (blk & P & R).
  exists blk. split; [exact P|]. intros cs. eexists. apply R.
Qed.

Lemma onwire_pw_traffic blk :
  map onwire (pw_traffic blk) =
  flat_map (fun c => [(sel [c] false, DLit [0x90]); (sel [c] true, DLit (blk c))]) all_chips.
Proof. reflexivity. Qed.

(** C: what is on the wire *)
Lemma setup_partial_windows_wire : forall win cs, window_inside win ->
  exists (blk : chip -> list N) (t : list bev),
    setup_partial_windows win cs = (Some tt, N.lor CS_S1 CS_DATA, t) /\
    wire (decode cs) t =
      flat_map (fun c => [(sel [c] false, DLit [0x90]); (sel [c] true, DLit (blk c))]) all_chips /\
    pins_after (decode cs) t = sel [S1] true /\
    forall c, pw_encodes (blk c) (pw_fields win c).
Proof.
  intros win cs H. destruct (setup_partial_windows_runs win H) as (blk & P & R).
  destruct (runs_wire _ _ _ _ _ (R cs)) as (t & E & W & PA & _).
  exists blk, t. repeat split; try assumption.
Qed.

(** * Big.Mode: the exact register traffic of [set_mode], for all 16 configurations *)
From Coq Require Import List NArith Bool.
From EPD Require Import Big.Model Big.Spec.
Import ListNotations.
Open Scope N_scope.

Lemma set_mode_bytes : forall (k : N) (kw r : bool) (bd : border) (ext : bool),
  let ddx := match r, kw with
             | false, true => 0
             | false, false => 1
             | true, true => 2
             | true, false => 3
             end in
  let bdv := match N.odd ddx, bd with
             | false, LUTBD => 0 | false, LUTR => 1 | false, LUTW => 2 | false, LUTK => 3
             | true, LUTK => 0 | true, LUTW => 1 | true, LUTR => 2 | true, LUTBD => 3
             end in
  let reg := N.shiftl (if ext then 1 else 0) 5 in
  exists t, exec k (OSetMode (mkConfig kw r bd ext)) 0 = (Some KUnit, 0, t) /\
    pins_after released t = released /\
    reads released t = [] /\
    wire released t =
      [ (sel [M1] false, DLit [0x00]); (sel [M1] true, DLit [N.lor reg 0x0F]);
        (sel [S1] false, DLit [0x00]); (sel [S1] true, DLit [N.lor reg 0x0F]);
        (sel [M2] false, DLit [0x00]); (sel [M2] true, DLit [N.lor reg 0x03]);
        (sel [S2] false, DLit [0x00]); (sel [S2] true, DLit [N.lor reg 0x03]);
        (sel [M1; S1; M2; S2] false, DLit [0x50]);
        (sel [M1; S1; M2; S2] true, DLit [N.lor (N.shiftl bdv 4) ddx; 0x07]) ].
Proof.
  intros k kw r bd ext. eexists. split; [reflexivity|].
  destruct kw, r, bd, ext; vm_compute; repeat split.
Qed.


(** * Big.Spec: what the four-controller 12.48in panel expects, stated independently of the driver.

    Nothing here mentions the driver's helpers ([spi_write], [write_window_data], [Rect.intersect]
    ...).  There are three ingredients:
    - an abstract state of the six output lines the driver qualifies transfers with, and scanners
      of a [bev] trace (resp. a [bhal] event list) that say what is on those lines at every
      [SpiBus::write]/[read];
    - the geometry of the panel (which controller owns which pixel, mirrored or not);
    - the expected traffic per controller for a window write. *)
From Coq Require Import List NArith Bool.
From EPD Require Import Big.Model.
Import ListNotations.
Open Scope N_scope.

(** ** The four controllers, in the order the driver serves them *)
Inductive chip := S2 | M2 | M1 | S1.
Definition all_chips : list chip := [S2; M2; M1; S1].

Definition chip_eqb (a b : chip) : bool :=
  match a, b with S2, S2 | M2, M2 | M1, M1 | S1, S1 => true | _, _ => false end.

(** ** The lines: four chip selects (active low), two data/command lines (high = data) *)
Record pstate := mkP {
  p_m1 : bool; p_s1 : bool; p_m2 : bool; p_s2 : bool;   (* levels of m1_cs s1_cs m2_cs s2_cs *)
  p_dc1 : bool; p_dc2 : bool                            (* levels of m1s1_dc m2s2_dc *)
}.

(** every chip select high, both D/C low *)
Definition released : pstate := mkP true true true true false false.

Definition set_level (p : pin) (l : bool) (s : pstate) : pstate :=
  match p with
  | CsM1 => mkP l (p_s1 s) (p_m2 s) (p_s2 s) (p_dc1 s) (p_dc2 s)
  | CsS1 => mkP (p_m1 s) l (p_m2 s) (p_s2 s) (p_dc1 s) (p_dc2 s)
  | CsM2 => mkP (p_m1 s) (p_s1 s) l (p_s2 s) (p_dc1 s) (p_dc2 s)
  | CsS2 => mkP (p_m1 s) (p_s1 s) (p_m2 s) l (p_dc1 s) (p_dc2 s)
  | Dc1 => mkP (p_m1 s) (p_s1 s) (p_m2 s) (p_s2 s) l (p_dc2 s)
  | Dc2 => mkP (p_m1 s) (p_s1 s) (p_m2 s) (p_s2 s) (p_dc1 s) l
  | Rst1 | Rst2 => s
  end.

Definition cs_level (s : pstate) (c : chip) : bool :=
  match c with M1 => p_m1 s | S1 => p_s1 s | M2 => p_m2 s | S2 => p_s2 s end.
(** chip select is active low *)
Definition selected (s : pstate) (c : chip) : bool := negb (cs_level s c).
(** the D/C line wired to a controller *)
Definition dc_of (s : pstate) (c : chip) : bool :=
  match c with M1 | S1 => p_dc1 s | M2 | S2 => p_dc2 s end.

Definition inb (c : chip) (l : list chip) : bool := existsb (chip_eqb c) l.
(** exactly the controllers of [l] selected, both D/C lines at [dc] *)
Definition sel (l : list chip) (dc : bool) : pstate :=
  mkP (negb (inb M1 l)) (negb (inb S1 l)) (negb (inb M2 l)) (negb (inb S2 l)) dc dc.

(** decoding of the driver's [control_state] byte: bits 0..3 = M1 S1 M2 S2 selected, bit 4 = data *)
Definition decode (c : N) : pstate :=
  mkP (negb (N.testbit c 0)) (negb (N.testbit c 1)) (negb (N.testbit c 2)) (negb (N.testbit c 3))
      (N.testbit c 4) (N.testbit c 4).

(** ** Scanners of the fault-free trace *)
Definition pstep (s : pstate) (e : bev) : pstate :=
  match e with BPin p l => set_level p l s | _ => s end.

Fixpoint pins_after (s : pstate) (t : list bev) : pstate :=
  match t with [] => s | e :: r => pins_after (pstep s e) r end.

(** the [control_state] markers *)
Fixpoint marker_after (m : N) (t : list bev) : N :=
  match t with [] => m | BSetCs c :: r => marker_after c r | _ :: r => marker_after m r end.

(** every [SpiBus::write] with the lines and the [control_state] marker at that moment *)
Fixpoint xfers (s : pstate) (m : N) (t : list bev) : list (pstate * N * dexp) :=
  match t with
  | [] => []
  | BWrite e :: r => (s, m, e) :: xfers s m r
  | BPin p l :: r => xfers (set_level p l s) m r
  | BSetCs c :: r => xfers s c r
  | _ :: r => xfers s m r
  end.

(** the same without the marker: what is on the wire *)
Fixpoint wire (s : pstate) (t : list bev) : list (pstate * dexp) :=
  match t with
  | [] => []
  | BWrite e :: r => (s, e) :: wire s r
  | BPin p l :: r => wire (set_level p l s) r
  | _ :: r => wire s r
  end.

(** every [SpiBus::read] with the lines at that moment *)
Fixpoint reads (s : pstate) (t : list bev) : list (pstate * N) :=
  match t with
  | [] => []
  | BRead n :: r => (s, n) :: reads s r
  | BPin p l :: r => reads (set_level p l s) r
  | _ :: r => reads s r
  end.

(** what one controller sees: the transfers made while its chip select is low, with the level of
    ITS D/C line *)
Definition chip_view (c : chip) (ws : list (pstate * dexp)) : list (bool * dexp) :=
  flat_map (fun pe : pstate * dexp => if selected (fst pe) c then [(dc_of (fst pe) c, snd pe)] else []) ws.

(** number of controllers selected *)
Definition nsel (s : pstate) : nat :=
  length (filter (selected s) all_chips).

(** ** Scanner of the HAL events (with faults) *)
Fixpoint hpins_after (s : pstate) (t : list bhal) : pstate :=
  match t with
  | [] => s
  | HPin p l :: r => hpins_after (set_level p l s) r
  | _ :: r => hpins_after s r
  end.

Definition is_failed_write (e : bhal) : bool :=
  match e with HWrite _ false => true | _ => false end.
Definition is_write (e : bhal) : bool :=
  match e with HWrite _ _ => true | _ => false end.

(** ** Geometry (pixels).  S2 | M2 above M1 | S1; the seams are at x = 648 and y = 492. *)
Definition chip_x0 (c : chip) : N := match c with S2 | M1 => 0 | M2 | S1 => 648 end.
Definition chip_y0 (c : chip) : N := match c with S2 | M2 => 0 | M1 | S1 => 492 end.
Definition chip_w (c : chip) : N := match c with S2 | M1 => 648 | M2 | S1 => 656 end.
Definition chip_h (c : chip) : N := 492.
(** the two upper controllers scan their gates right to left *)
Definition mirrored (c : chip) : bool := match c with S2 | M2 => true | M1 | S1 => false end.

(** owner of panel byte column [X] (0..162) of pixel row [Y] (0..983) *)
Definition owner (X Y : N) : chip :=
  if Y <? 492 then (if X <? 81 then S2 else M2) else (if X <? 81 then M1 else S1).

(** the property's windows: 8-aligned, non-empty, inside 1304 x 984 *)
Definition window_ok (win : rect) : Prop :=
  rx win mod 8 = 0 /\ rw win mod 8 = 0 /\ 0 < rw win /\ 0 < rh win /\
  rx win + rw win <= 1304 /\ ry win + rh win <= 984.
Definition window_inside (win : rect) : Prop :=
  rx win + rw win <= 1304 /\ ry win + rh win <= 984.

(** the part of a window that lies on controller [c], in panel coordinates: columns
    [px0, px1), rows [py0, py1) *)
Definition px0 (win : rect) (c : chip) : N := N.max (rx win) (chip_x0 c).
Definition px1 (win : rect) (c : chip) : N := N.min (rx win + rw win) (chip_x0 c + chip_w c).
Definition py0 (win : rect) (c : chip) : N := N.max (ry win) (chip_y0 c).
Definition py1 (win : rect) (c : chip) : N := N.min (ry win + rh win) (chip_y0 c + chip_h c).
Definition part_nonempty (win : rect) (c : chip) : bool :=
  (px0 win c <? px1 win c) && (py0 win c <? py1 win c).

(** ** Partial-window register (command 0x90): HRST HRED VRST VRED, 16 bit big endian, then 0x01 *)
Definition pw_fields (win : rect) (c : chip) : option (N * N * N * N) :=
  if part_nonempty win c then
    let lx := px0 win c - chip_x0 c in
    let lw := px1 win c - px0 win c in
    let ly := py0 win c - chip_y0 c in
    let lh := py1 win c - py0 win c in
    let hs := if mirrored c then chip_w c - lx - lw else lx in
    Some (hs, hs + lw - 1, ly, ly + lh - 1)
  else None.

(** the window the driver programs when nothing of the window is on a controller: off screen *)
Definition pw_off_screen : list N := [0x00; 0x00; 0xFF; 0xFF; 0x00; 0x00; 0xFF; 0xFF; 0x01].

Definition byte (b : N) : Prop := b < 256.

Definition pw_encodes (block : list N) (f : option (N * N * N * N)) : Prop :=
  match f with
  | None => block = pw_off_screen
  | Some (hs, he, vs, ve) =>
      exists b0 b1 b2 b3 b4 b5 b6 b7,
        block = [b0; b1; b2; b3; b4; b5; b6; b7; 0x01] /\
        byte b0 /\ byte b1 /\ byte b2 /\ byte b3 /\ byte b4 /\ byte b5 /\ byte b6 /\ byte b7 /\
        b0 * 256 + b1 = hs /\ b2 * 256 + b3 = he /\ b4 * 256 + b5 = vs /\ b6 * 256 + b7 = ve
  end.

(** ** Expected data traffic of a window write, per controller.

    The caller's buffer holds [nr] whole window rows of [rw win / 8] bytes; window row [r] reads
    buffer row [r mod nr].  Controller [c] gets, after the data-start command, one slice per window
    row that crosses it, top to bottom. *)
Definition nseq (a n : N) : list N := map (fun i => a + N.of_nat i) (seq 0 (N.to_nat n)).

Definition row_bytes (win : rect) : N := rw win / 8.
Definition col_start (win : rect) (c : chip) : N := (px0 win c - rx win) / 8.
Definition part_bytes (win : rect) (c : chip) : N := (px1 win c - px0 win c) / 8.
Definition first_row (win : rect) (c : chip) : N := py0 win c - ry win.
Definition part_rows (win : rect) (c : chip) : N := py1 win c - py0 win c.

Definition row_slice (k : N) (win : rect) (nr : N) (c : chip) (r : N) : dexp :=
  DArg k 0 ((r mod nr) * row_bytes win + col_start win c) (part_bytes win c).

Definition chip_expect (k command : N) (win : rect) (nr : N) (c : chip) : list (bool * dexp) :=
  if part_nonempty win c then
    (false, DLit [command]) ::
    map (fun r => (true, row_slice k win nr c r)) (nseq (first_row win c) (part_rows win c))
  else [].

(** the buffer offsets of the data bytes a controller receives, in order of arrival *)
Definition slice_offsets (e : dexp) : list N :=
  match e with
  | DArg _ _ off len => nseq off len
  | _ => []
  end.
Definition data_offsets (v : list (bool * dexp)) : list N :=
  flat_map (fun x : bool * dexp => if fst x then slice_offsets (snd x) else []) v.

(** * Big.FailStop: what an SPI write error leaves behind *)
From Coq Require Import List NArith ZArith Bool Lia ZifyBool ZifyNat ZifyN.
From EPD Require Import Big.Model Big.Spec Big.Pins.
Import ListNotations.
Open Scope N_scope.

Arguments N.add : simpl never.
Arguments N.sub : simpl never.
Arguments N.mul : simpl never.
Arguments N.ltb : simpl never.
Arguments N.eqb : simpl never.
Arguments N.leb : simpl never.
Arguments N.land : simpl never.
Arguments N.lor : simpl never.

(** ** polling only adds polls and delays *)
Definition quiet_h (e : bhal) : bool :=
  match e with HPoll _ _ | HDelay _ _ => true | _ => false end.

Definition ext (x x1 : xstate) : Prop :=
  x_cs x1 = x_cs x /\ w_fault (x_w x1) = w_fault (x_w x) /\
  exists l, x_acc x1 = l ++ x_acc x /\ forallb quiet_h l = true.

Lemma ext_refl x : ext x x.
Proof. split; [reflexivity|split; [reflexivity|]]. exists []. split; reflexivity. Qed.

Lemma ext_trans x y z : ext x y -> ext y z -> ext x z.
Proof.
  intros (C1 & F1 & l1 & A1 & Q1) (C2 & F2 & l2 & A2 & Q2).
  split; [congruence|split; [congruence|]]. exists (l2 ++ l1). split.
  - rewrite A2, A1, app_assoc. reflexivity.
  - rewrite forallb_app, Q1, Q2. reflexivity.
Qed.

Lemma set_stream_fault p s w : w_fault (set_stream p s w) = w_fault w.
Proof. destruct p; reflexivity. Qed.

Lemma poll_chip_ext chips p x b : ext x (fst (poll_chip chips p x b)).
Proof.
  unfold poll_chip. destruct (N.land chips (chip_of p) =? 0); [apply ext_refl|].
  destruct (poll_level (get_stream p (x_w x))) as [lvl s']. cbn [fst].
  split; [reflexivity|split; [apply set_stream_fault|]].
  exists [HPoll p (negb lvl)]. split; reflexivity.
Qed.

Lemma x_busy_chips_ext chips x : ext x (fst (x_busy_chips chips x)).
Proof.
  unfold x_busy_chips.
  pose proof (poll_chip_ext chips BM1 x 0) as H1.
  destruct (poll_chip chips BM1 x 0) as [x1 b1]. cbn [fst] in H1.
  pose proof (poll_chip_ext chips BS1 x1 b1) as H2.
  destruct (poll_chip chips BS1 x1 b1) as [x2 b2]. cbn [fst] in H2.
  pose proof (poll_chip_ext chips BM2 x2 b2) as H3.
  destruct (poll_chip chips BM2 x2 b2) as [x3 b3]. cbn [fst] in H3.
  pose proof (poll_chip_ext chips BS2 x3 b3) as H4.
  eapply ext_trans; [|exact H4]. eapply ext_trans; [|exact H3]. eapply ext_trans; eassumption.
Qed.

Lemma push_quiet_ext e x : quiet_h e = true -> ext x (push e x).
Proof.
  intros Q. split; [reflexivity|split; [reflexivity|]]. exists [e]. split; [reflexivity|].
  cbn [forallb]. rewrite Q. reflexivity.
Qed.

Lemma x_wait_ready_ext chips fuel : forall x x1, x_wait_ready chips fuel x = Some x1 -> ext x x1.
Proof.
  induction fuel as [|f IH]; intros x x1 H; cbn [x_wait_ready] in H; [discriminate|].
  pose proof (x_busy_chips_ext chips x) as HB.
  destruct (x_busy_chips chips x) as [y busy]. cbn [fst] in HB.
  destruct (busy =? 0).
  - injection H as <-. exact HB.
  - eapply ext_trans; [exact HB|]. eapply ext_trans; [|apply (IH _ _ H)].
    apply push_quiet_ext. reflexivity.
Qed.

(** ** E1: nothing follows a failed write, and it is the write the fault budget names *)
Definition nofail (l : list bhal) : Prop :=
  forallb (fun e => negb (is_failed_write e)) l = true.
Definition nwrites (l : list bhal) : nat := length (filter is_write l).

Lemma quiet_nofail l : forallb quiet_h l = true -> nofail l.
Proof.
  unfold nofail. induction l as [|e l IH]; cbn [forallb]; [reflexivity|].
  intros H. apply andb_true_iff in H. destruct H as [He Hl]. rewrite (IH Hl).
  destruct e; try discriminate He; reflexivity.
Qed.

Lemma quiet_nwrites l : forallb quiet_h l = true -> nwrites l = 0%nat.
Proof.
  unfold nwrites. induction l as [|e l IH]; cbn [forallb filter]; [reflexivity|].
  intros H. apply andb_true_iff in H. destruct H as [He Hl].
  destruct e; try discriminate He; cbn [is_write]; apply (IH Hl).
Qed.

Lemma ext_nofail x x1 : ext x x1 -> nofail (x_acc x) -> nofail (x_acc x1).
Proof.
  intros (_ & _ & l & A & Q) H. unfold nofail in *. rewrite A, forallb_app, H.
  rewrite (quiet_nofail l Q). reflexivity.
Qed.

Lemma ext_nwrites x x1 : ext x x1 -> nwrites (x_acc x1) = nwrites (x_acc x).
Proof.
  intros (_ & _ & l & A & Q). unfold nwrites in *. rewrite A, filter_app, app_length.
  fold (nwrites l). rewrite (quiet_nwrites l Q). reflexivity.
Qed.

Definition budget_ok (f : option N) (before after : nat) (failed : bool) : Prop :=
  match f, failed with
  | None, true => False
  | None, false => True
  | Some j, true => after = (before + N.to_nat j + 1)%nat
  | Some j, false => (after <= before + N.to_nat j)%nat
  end.

Lemma items_fail_stop t : forall x, nofail (x_acc x) ->
  match bexpand_items t x with
  | (OErr, x') => (exists e a, x_acc x' = HWrite e false :: a /\ nofail a) /\
                  budget_ok (w_fault (x_w x)) (nwrites (x_acc x)) (nwrites (x_acc x')) true
  | (_, x') => nofail (x_acc x') /\
               budget_ok (w_fault (x_w x)) (nwrites (x_acc x)) (nwrites (x_acc x')) false
  end.
Proof.
  assert (B0 : forall f n, budget_ok f n n false) by (intros [j|] n; cbn; [lia|exact I]).
  induction t as [|e t IH]; intros x Hx; cbn [bexpand_items]; [split; [exact Hx|apply B0]|].
  destruct e as [p l|d| |n|chips|chips|u n|c|].
  - apply (IH (push (HPin p l) x)). exact Hx.
  - destruct (w_fault (x_w x)) as [j|] eqn:F.
    + destruct j as [|j'] eqn:J.
      * split; [exists d, (x_acc x); split; [reflexivity|exact Hx]|]. unfold nwrites. cbn. lia.
      * match goal with |- context [bexpand_items t ?y] => specialize (IH y) end.
        cbn [x_acc x_w] in IH. unfold nofail in IH at 1. cbn [forallb is_failed_write negb andb] in IH.
        specialize (IH Hx).
        destruct (bexpand_items t _) as [out x'].
        assert (NC : nwrites (HWrite d true :: x_acc x) = S (nwrites (x_acc x))) by reflexivity.
        rewrite NC in IH.
        change (w_fault (set_fault (Some (N.pos j' - 1)) (x_w x))) with (Some (N.pos j' - 1)) in IH.
        destruct out; (split; [apply IH|]); destruct IH as [_ IH]; unfold budget_ok in IH |- *; lia.
    + match goal with |- context [bexpand_items t ?y] => specialize (IH y) end.
      cbn [x_acc x_w] in IH. unfold nofail in IH at 1. cbn [forallb is_failed_write negb andb] in IH.
      specialize (IH Hx).
      destruct (bexpand_items t _) as [out x'].
      change (w_fault (set_fault None (x_w x))) with (@None N) in IH.
      destruct out; (split; [apply IH|]); destruct IH as [_ IH]; cbn in IH |- *; tauto.
  - apply (IH (push HFlush x)). exact Hx.
  - destruct (take_miso (N.to_nat n) (w_miso (x_w x))) as [bytes rest].
    match goal with |- context [bexpand_items t ?y] => apply (IH y) end. exact Hx.
  - destruct (x_wait_ready chips (wait_fuel (x_w x)) x) as [x1|] eqn:W; [|split; [exact Hx|apply B0]].
    pose proof (x_wait_ready_ext _ _ _ _ W) as E.
    specialize (IH x1 (ext_nofail _ _ E Hx)).
    destruct E as (_ & F & _). pose proof (ext_nwrites _ _ (x_wait_ready_ext _ _ _ _ W)) as NW.
    rewrite F, NW in IH. exact IH.
  - pose proof (x_busy_chips_ext chips x) as E.
    destruct (x_busy_chips chips x) as [x1 busy]. cbn [fst] in E.
    match goal with |- context [bexpand_items t ?y] => specialize (IH y) end.
    cbn [x_acc x_w] in IH. specialize (IH (ext_nofail _ _ E Hx)).
    destruct E as (E0 & F & E1). rewrite F, (ext_nwrites x x1 (conj E0 (conj F E1))) in IH. exact IH.
  - apply (IH (push (HDelay u n) x)). exact Hx.
  - match goal with |- context [bexpand_items t ?y] => apply (IH y) end. exact Hx.
  - split; [exact Hx|apply B0].
Qed.

Lemma nofail_rev l : nofail l -> nofail (rev l).
Proof.
  unfold nofail. intros H. apply forallb_forall. intros e He. apply in_rev in He.
  exact (proj1 (forallb_forall _ _) H e He).
Qed.

Lemma nwrites_rev l : nwrites (rev l) = nwrites l.
Proof.
  unfold nwrites. induction l as [|e l IH]; [reflexivity|].
  cbn [rev filter]. rewrite filter_app, app_length, IH. cbn [filter].
  destruct (is_write e); cbn [length]; lia.
Qed.

(** E1 *)
Lemma bexpand_fail_stop : forall w cs t,
  match bexpand w cs t with
  | (out, _, _, _, _, evs) =>
      match out with
      | OErr => exists pre e j, evs = pre ++ [HWrite e false] /\ nofail pre /\
                                w_fault w = Some j /\ nwrites pre = N.to_nat j
      | _ => nofail evs /\ match w_fault w with
                           | Some j => (nwrites evs <= N.to_nat j)%nat
                           | None => True
                           end
      end
  end.
Proof.
  intros w cs t. unfold bexpand.
  pose proof (items_fail_stop t (mkX w cs 0 [] []) eq_refl) as H.
  destruct (bexpand_items t (mkX w cs 0 [] [])) as [out x']. cbn [x_acc x_w] in H.
  rewrite !rev_append_rev, !app_nil_r.
  destruct out.
  - destruct H as [H1 H2]. split; [apply nofail_rev; exact H1|].
    rewrite nwrites_rev. destruct (w_fault w); cbn in H2; [lia|exact I].
  - destruct H as [(e & a & A & Na) H2]. rewrite A in *. cbn [rev].
    destruct (w_fault w) as [j|]; cbn in H2; [|contradiction].
    exists (rev a), e, j. split; [reflexivity|]. split; [apply nofail_rev; exact Na|].
    split; [reflexivity|]. rewrite nwrites_rev. unfold nwrites in *. cbn [filter is_write length] in H2. lia.
  - destruct H as [H1 H2]. split; [apply nofail_rev; exact H1|].
    rewrite nwrites_rev. destruct (w_fault w); cbn in H2; [lia|exact I].
  - destruct H as [H1 H2]. split; [apply nofail_rev; exact H1|].
    rewrite nwrites_rev. destruct (w_fault w); cbn in H2; [lia|exact I].
Qed.

(** ** E2: are the lines released after an error?  No. *)
Definition idle_world : bworld :=
  mkBW (mkBS [] true) (mkBS [] true) (mkBS [] true) (mkBS [] true) None [].

(** the wish *)
Definition C15_release_after_error_stmt : Prop :=
  forall k o j w res cs1 w1 evs,
    call k o (Some j) 0 w = (res, cs1, w1, evs) -> res = BRErr ->
    hpins_after released evs = released /\ cs1 = 0.

(** [power_off] whose only write fails: all four chip selects stay low, control_state stays 15 *)
Lemma release_after_error_witness_power_off :
  exists w1 evs, call 0 OPowerOff (Some 0) 0 idle_world = (BRErr, CS_ALL, w1, evs) /\
                 hpins_after released evs = sel [M1; S1; M2; S2] false.
Proof. eexists. eexists. split; vm_compute; reflexivity. Qed.

(** a full-frame [write_data1] whose first data-start command fails: S2 stays selected *)
Lemma release_after_error_witness_write_data :
  exists w1 evs, call 0 (OWriteData1 (984 * 163)) (Some 0) 0 idle_world = (BRErr, CS_S2, w1, evs) /\
                 hpins_after released evs = sel [S2] false.
Proof. eexists. eexists. split; vm_compute; reflexivity. Qed.

(** ... and when the third row of S2 fails: S2 selected with D/C high *)
Lemma release_after_error_witness_write_data_row :
  exists w1 evs, call 0 (OWriteData1 (984 * 163)) (Some 3) 0 idle_world =
                   (BRErr, N.lor CS_S2 CS_DATA, w1, evs) /\
                 hpins_after released evs = sel [S2] true.
Proof. eexists. eexists. split; vm_compute; reflexivity. Qed.

Lemma release_after_error_refuted : ~ C15_release_after_error_stmt.
Proof.
  intros H. destruct release_after_error_witness_power_off as (w1 & evs & E & P).
  destruct (H _ _ _ _ _ _ _ _ E eq_refl) as [_ C]. discriminate C.
Qed.

(** ** what does hold: the lines always agree with [control_state], so the next call that
    writes or flushes drives them afresh *)
Definition hstep (s : pstate) (e : bhal) : pstate :=
  match e with HPin p l => set_level p l s | _ => s end.

Lemma hpins_after_app s a b : hpins_after s (a ++ b) = hpins_after (hpins_after s a) b.
Proof.
  revert s; induction a as [|e a IH]; intros s; cbn [app hpins_after]; [reflexivity|].
  destruct e; apply IH.
Qed.

Lemma hpins_after_snoc s a e : hpins_after s (a ++ [e]) = hstep (hpins_after s a) e.
Proof. rewrite hpins_after_app. destruct e; reflexivity. Qed.

Definition hp (s0 : pstate) (x : xstate) : pstate := hpins_after s0 (rev (x_acc x)).

Lemma hp_quiet s0 l acc : forallb quiet_h l = true ->
  hpins_after s0 (rev (l ++ acc)) = hpins_after s0 (rev acc).
Proof.
  induction l as [|e l IH]; intros Q; [reflexivity|].
  cbn [forallb] in Q. apply andb_true_iff in Q. destruct Q as [Qe Ql].
  cbn [app rev]. rewrite hpins_after_snoc, (IH Ql). destruct e; try discriminate Qe; reflexivity.
Qed.

Lemma ext_hp s0 x x1 : ext x x1 -> hp s0 x1 = hp s0 x.
Proof. intros (_ & _ & l & A & Q). unfold hp. rewrite A. apply hp_quiet. exact Q. Qed.

Definition consistent_writes (s : pstate) (m : N) (t : list bev) : Prop :=
  Forall (fun x => fst (fst x) = decode (snd (fst x))) (xfers s m t).

Lemma items_consistent s0 t : forall x,
  consistent_writes (hp s0 x) (x_cs x) t ->
  pins_after (hp s0 x) t = decode (marker_after (x_cs x) t) ->
  match bexpand_items t x with
  | (OOk, x') | (OErr, x') => hp s0 x' = decode (x_cs x')
  | _ => True
  end.
Proof.
  induction t as [|e t IH]; intros x CW PA; cbn [bexpand_items].
  - exact PA.
  - destruct e as [p l|d| |n|chips|chips|u n|c|];
      cbn [xfers pins_after pstep marker_after] in CW, PA; unfold consistent_writes in CW.
    + apply IH; unfold hp, push; cbn [x_acc x_cs rev]; rewrite hpins_after_snoc; cbn [hstep];
        [exact CW|exact PA].
    + inversion CW as [|y ys Hy Hys]; subst. cbn [fst snd] in Hy.
      destruct (w_fault (x_w x)) as [[|j']|].
      * unfold hp. cbn [x_acc x_cs rev]. rewrite hpins_after_snoc. exact Hy.
      * apply IH; unfold hp; cbn [x_acc x_cs rev]; rewrite hpins_after_snoc; cbn [hstep];
          [exact Hys|exact PA].
      * apply IH; unfold hp; cbn [x_acc x_cs rev]; rewrite hpins_after_snoc; cbn [hstep];
          [exact Hys|exact PA].
    + apply IH; unfold hp, push; cbn [x_acc x_cs rev]; rewrite hpins_after_snoc; cbn [hstep];
        [exact CW|exact PA].
    + destruct (take_miso (N.to_nat n) (w_miso (x_w x))) as [bytes rest].
      apply IH; unfold hp; cbn [x_acc x_cs rev]; rewrite hpins_after_snoc; cbn [hstep];
        [exact CW|exact PA].
    + destruct (x_wait_ready chips (wait_fuel (x_w x)) x) as [x1|] eqn:W; [|exact I].
      pose proof (x_wait_ready_ext _ _ _ _ W) as E.
      apply IH; rewrite (ext_hp s0 x x1 E); destruct E as (-> & _); [exact CW|exact PA].
    + pose proof (x_busy_chips_ext chips x) as E.
      destruct (x_busy_chips chips x) as [x1 busy]. cbn [fst] in E.
      pose proof (ext_hp s0 x x1 E) as HP. destruct E as (EC & _).
      apply IH; unfold hp in *; cbn [x_acc x_cs]; rewrite HP, EC; [exact CW|exact PA].
    + apply IH; unfold hp, push; cbn [x_acc x_cs rev]; rewrite hpins_after_snoc; cbn [hstep];
        [exact CW|exact PA].
    + apply IH; unfold hp; cbn [x_acc x_cs]; [exact CW|exact PA].
    + exact I.
Qed.

Lemma consistent_after_call : forall k o fault cs w res cs1 w1 evs,
  o <> OGetStatus ->
  call k o fault cs w = (res, cs1, w1, evs) ->
  res = BRErr \/ (exists v, res = BROk v) ->
  hpins_after (decode cs) evs = decode cs1.
Proof.
  intros k o fault cs w res cs1 w1 evs Ho E Hres. unfold call in E.
  destruct (exec k o cs) as [[r cs'] t] eqn:X.
  destruct (good_exec k o Ho cs) as (r' & c' & ws & (t' & X' & P & M & XF & _) & _).
  rewrite X in X'. injection X' as <- <- <-.
  unfold bexpand in E.
  pose proof (items_consistent (decode cs) t (mkX (set_fault fault w) cs 0 [] [])) as H.
  unfold hp at 1 2 in H. cbn [x_acc x_cs rev hpins_after] in H.
  assert (CW : consistent_writes (decode cs) cs t).
  { unfold consistent_writes. rewrite XF. clear. induction ws as [|a ws IH]; constructor; [reflexivity|exact IH]. }
  rewrite <- M in P. specialize (H CW P).
  destruct (bexpand_items t (mkX (set_fault fault w) cs 0 [] [])) as [out x'].
  injection E as E1 E2 E3 E4. subst evs cs1. rewrite rev_append_rev, app_nil_r.
  destruct out; try exact H.
  - destruct Hres as [Hr|[v Hr]]; subst res; discriminate.
  - destruct Hres as [Hr|[v Hr]]; subst res; discriminate.
Qed.

(** and any later call that completes releases them, whatever state the error left *)
Lemma recovery_after_error : forall k o cs r cs' t,
  o <> OGetStatus -> o <> OGetBusy -> o <> OIsBusy ->
  exec k o cs = (r, cs', t) -> r <> None ->
  pins_after (decode cs) t = released /\ cs' = 0.
Proof.
  intros k o cs r cs' t H1 H2 H3 E Hr.
  destruct (good_xfers _ _ _ _ _ (good_exec k o H1) E) as (P & _).
  pose proof (ends0_exec k o cs r cs' t H2 H3 E Hr) as C. subst cs'. split; [exact P|reflexivity].
Qed.

(** a consequence: [get_status] does not release the lines first, it only sets the marker 0xFF.
    Entered after a failed call that left all four controllers selected ([control_state] = 15), its
    four status reads happen with 4, 3, 2 and 1 controllers driving MISO. *)
Lemma get_status_after_error_contention : forall k,
  exists t, exec k OGetStatus 15 = (Some KStatus, 0, t) /\
    map (fun x => nsel (fst (fst x))) (xfers (decode 15) 15 t) = [4%nat; 3%nat; 2%nat; 1%nat] /\
    map (fun x => nsel (fst x)) (reads (decode 15) t) = [4%nat; 3%nat; 2%nat; 1%nat] /\
    pins_after (decode 15) t = released.
Proof. intros k. eexists. split; [reflexivity|]. repeat split. Qed.

(** * Big.Model: model of src/epd12in48b_v2/mod.rs (Waveshare 12.48in (B) V2)

    The driver owns an [SpiBus], four chip selects, two D/C pins, two reset pins, four busy inputs
    and a [DelayNs]; its only field besides the peripherals is [control_state : u8].

    Layering (same idea as Iface.v / Hal.v for the 27 trait drivers):
    - [exec k op cs] is a pure, fault-free, world-independent trace of [bev]s: what the method does
      when every SPI write succeeds, with markers [BSetCs] at every assignment to [control_state],
      [BPollWait]/[BPoll] where the busy inputs are consulted and [BPanic] where the Rust panics.
      Caller buffers are symbolic ([Iface.dexp]); only their length is known.
    - [bexpand] applies a world (four busy streams, an SPI write fault, MISO bytes) to such a trace
      and yields HAL events ([bhal]), the outcome and the [control_state] the driver is left with.
    - [call] = [exec] + [bexpand] = one API call as the harness observes it. *)
From Coq Require Import List NArith Bool.
From EPD Require Iface.
From EPD Require Pure.Rect.
Import ListNotations.
Open Scope N_scope.

Notation dexp := Iface.dexp (only parsing).
Notation DLit := Iface.DLit (only parsing).
Notation DArg := Iface.DArg (only parsing).
Notation DRep := Iface.DRep (only parsing).
Notation dunit := Iface.dunit (only parsing).
Notation Dns := Iface.Dns (only parsing).
Notation Dus := Iface.Dus (only parsing).
Notation Dms := Iface.Dms (only parsing).
Notation rect := Rect.rect (only parsing).
Notation mkRect := Rect.mkRect (only parsing).
Notation rx := Rect.rx (only parsing).
Notation ry := Rect.ry (only parsing).
Notation rw := Rect.rw (only parsing).
Notation rh := Rect.rh (only parsing).

(** ** Peripherals *)
Inductive pin :=
| CsM1 | CsS1 | CsM2 | CsS2      (* m1_cs s1_cs m2_cs s2_cs, active low *)
| Dc1 | Dc2                      (* m1s1_dc m2s2_dc, high = data *)
| Rst1 | Rst2.                   (* m1s1_rst m2s2_rst *)
Inductive bpin := BM1 | BS1 | BM2 | BS2.   (* m1_busy s1_busy m2_busy s2_busy, low = busy *)

(** ** Events of the fault-free, world-independent trace *)
Inductive bev :=
| BPin (p : pin) (lvl : bool)     (* OutputPin::set_high / set_low / set_state *)
| BWrite (e : dexp)               (* one SpiBus::write *)
| BFlush                          (* SpiBus::flush *)
| BRead (n : N)                   (* SpiBus::read of n bytes *)
| BPollWait (chips : N)           (* a whole wait_ready(chips) loop; expanded against the world *)
| BPoll (chips : N)               (* one busy_chips(chips) call whose result is kept *)
| BDelay (u : dunit) (n : N)
| BSetCs (cs : N)                 (* self.control_state = cs *)
| BPanic.                         (* assert!/panic!/slice index/debug overflow *)

(** ** Constants of mod.rs *)
Definition WIDTH : N := 1304.
Definition HEIGHT : N := 984.
Definition S2_WIDTH : N := 648.
Definition S2_HEIGHT : N := 492.

Definition FULL_RECT : rect := mkRect 0 0 WIDTH HEIGHT.
Definition S2_RECT : rect := mkRect 0 0 S2_WIDTH S2_HEIGHT.
Definition M2_RECT : rect := mkRect S2_WIDTH 0 (WIDTH - S2_WIDTH) S2_HEIGHT.
Definition M1_RECT : rect := mkRect 0 S2_HEIGHT S2_WIDTH (HEIGHT - S2_HEIGHT).
Definition S1_RECT : rect := mkRect S2_WIDTH S2_HEIGHT (WIDTH - S2_WIDTH) (HEIGHT - S2_HEIGHT).

Definition CS_M1 : N := 1.
Definition CS_S1 : N := 2.
Definition CS_M2 : N := 4.
Definition CS_S2 : N := 8.
Definition CS_ALL : N := 15.
Definition CS_DATA : N := 16.

(** command.rs *)
Definition PanelSetting : N := 0x00.
Definition PowerOff : N := 0x02.
Definition PowerOn : N := 0x04.
Definition BoosterSoftStart : N := 0x06.
Definition DeepSleep : N := 0x07.
Definition DataStartTransmission1 : N := 0x10.
Definition DisplayRefresh : N := 0x12.
Definition DataStartTransmission2 : N := 0x13.
Definition DualSPI : N := 0x15.
Definition LutC : N := 0x20.
Definition LutWW : N := 0x21.
Definition LutKW_LutR : N := 0x22.
Definition LutWK_LutW : N := 0x23.
Definition LutKK_LutK : N := 0x24.
Definition LutBD : N := 0x25.
Definition VcomAndDataIntervalSetting : N := 0x50.
Definition TconSetting : N := 0x60.
Definition TconResolution : N := 0x61.
Definition GetStatus : N := 0x71.
Definition PartialWindow : N := 0x90.
Definition PartialIn : N := 0x91.
Definition PartialOut : N := 0x92.
Definition CascadeSetting : N := 0xE0.
Definition PowerSaving : N := 0xE3.
Definition ForceTemperature : N := 0xE5.

(** config.rs *)
Inductive border := LUTBD | LUTK | LUTW | LUTR.
Record config := mkConfig {
  inverted_kw : bool;
  inverted_r : bool;
  border_lut : border;
  external_lut : bool
}.

(** ** The public methods.  Buffers appear as their length; their bytes are [DArg k 0 ..]. *)
Inductive bop :=
| OReset
| OInit (c : config)
| OSetMode (c : config)
| OWriteData1 (len : N)
| OWriteData2 (len : N)
| OWriteData1Partial (window : rect) (len : N)
| OWriteData2Partial (window : rect) (len : N)
| OSetLutC (len : N)
| OSetLutWW (len : N)
| OSetLutKW_LutR (len : N)
| OSetLutWK_LutW (len : N)
| OSetLutKK_LutK (len : N)
| OSetLutBD (len : N)
| ORefreshDisplay
| OBeginRefreshDisplay
| ORefreshDisplayPartial (window : rect)
| OBeginRefreshDisplayPartial (window : rect)
| OPowerOff
| OHibernate
| OGetBusy
| OIsBusy
| OGetStatus.

(** what a method returns when it returns normally; the world-dependent values ([get_busy],
    [is_busy], [get_status]) are filled in by [bexpand] *)
Inductive bkind := KUnit | KMask | KBool | KStatus.

(** ** The driver monad: [control_state] + writer + panic *)
Definition B (A : Type) := N -> (option A * N * list bev).

Definition ret {A} (a : A) : B A := fun cs => (Some a, cs, []).
Definition bind {A C} (m : B A) (f : A -> B C) : B C := fun cs =>
  match m cs with
  | (Some a, cs1, t1) => match f a cs1 with (r, cs2, t2) => (r, cs2, t1 ++ t2) end
  | (None, cs1, t1) => (None, cs1, t1)
  end.
Definition emit (e : bev) : B unit := fun cs => (Some tt, cs, [e]).
Definition control_state : B N := fun cs => (Some cs, cs, []).
Definition set_control_state (c : N) : B unit := fun _ => (Some tt, c, [BSetCs c]).
Definition panic {A} : B A := fun cs => (None, cs, [BPanic]).
Definition assert (b : bool) : B unit := if b then ret tt else panic.
(** a pure computation whose [None] is a debug-build panic *)
Definition lift {A} (o : option A) : B A := match o with Some a => ret a | None => panic end.

Declare Scope b_scope.
Delimit Scope b_scope with B.
Notation "x <- m ;; k" := (bind m (fun x => k)) (at level 61, m at next level, right associativity) : b_scope.
Notation "m ;; k" := (bind m (fun _ => k)) (at level 61, right associativity) : b_scope.
Open Scope b_scope.

Definition when_ (b : bool) (m : B unit) : B unit := if b then m else ret tt.

(** [for y in 0..n]: structural recursion on the row count *)
Fixpoint for_rows (n : nat) (y : N) (body : N -> B unit) : B unit :=
  match n with
  | O => ret tt
  | S m => body y ;; for_rows m (y + 1) body
  end.

Definition set_pin (p : pin) (lvl : bool) : B unit := emit (BPin p lvl).
Definition delay_ns (n : N) : B unit := emit (BDelay Dns n).
Definition delay_us (n : N) : B unit := emit (BDelay Dus n).
Definition delay_ms (n : N) : B unit := emit (BDelay Dms n).
Definition u8 (x : N) : N := x mod 256.

(** ** Private helpers of the driver, in the order of mod.rs *)

(** [spi_write]: set the control pins to [control] if they are not already, then one
    [SpiBus::write].  [control_state] is assigned BEFORE the write, so a failing write leaves
    [control_state = control] and the selected chips asserted. *)
Definition spi_write (control : N) (data : dexp) : B unit :=
  cs <- control_state ;;
  when_ (negb (cs =? control))
    (emit BFlush ;;
     delay_ns 100 ;;
     set_pin CsM1 (N.land control CS_M1 =? 0) ;;
     set_pin CsS1 (N.land control CS_S1 =? 0) ;;
     set_pin CsM2 (N.land control CS_M2 =? 0) ;;
     set_pin CsS2 (N.land control CS_S2 =? 0) ;;
     (let dc := negb (N.land control CS_DATA =? 0) in
      set_pin Dc1 dc ;;
      set_pin Dc2 dc) ;;
     delay_ns 100 ;;
     set_control_state control) ;;
  emit (BWrite data).

(** [flush]: flush SPI, release all chip selects, D/C low *)
Definition flush : B unit :=
  emit BFlush ;;
  set_pin CsM1 true ;;
  set_pin CsS1 true ;;
  set_pin CsM2 true ;;
  set_pin CsS2 true ;;
  set_pin Dc1 false ;;
  set_pin Dc2 false ;;
  set_control_state 0.

Definition cmd (chips : N) (command : N) : B unit :=
  spi_write chips (DLit [command]).

Definition cmd_with_data (chips : N) (command : N) (data : dexp) : B unit :=
  spi_write chips (DLit [command]) ;;
  spi_write (N.lor chips CS_DATA) data.

(** [wait_ready]: [while busy_chips(chips)? != 0 { delay_ms(200) }]; every caller drops the result *)
Definition wait_ready (chips : N) : B unit := emit (BPollWait chips).

(** [busy_chips]: polls [is_low] of every selected chip in the order M1, S1, M2, S2 *)
Definition busy_chips (chips : N) : B unit := emit (BPoll chips).

(** ** reset *)
Definition reset : B unit :=
  set_pin CsM1 true ;;
  set_pin CsS1 true ;;
  set_pin CsM2 true ;;
  set_pin CsS2 true ;;
  set_pin Dc1 false ;;
  set_pin Dc2 false ;;
  set_control_state 0 ;;
  set_pin Rst1 true ;;
  set_pin Rst2 true ;;
  delay_ms 1 ;;
  set_pin Rst1 false ;;
  delay_us 100 ;;
  set_pin Rst1 true ;;
  delay_ms 100 ;;
  set_pin Rst2 false ;;
  delay_us 100 ;;
  set_pin Rst2 true ;;
  delay_ms 100.

(** ** set_mode / init *)
Definition set_mode (c : config) : B unit :=
  let ddx : N := match inverted_r c, inverted_kw c with
                 | false, true => 0
                 | false, false => 1
                 | true, true => 2
                 | true, false => 3
                 end in
  let ddx0 := N.land ddx 1 =? 1 in
  let bdv : N := match ddx0, border_lut c with
                 | false, LUTBD => 0
                 | false, LUTR => 1
                 | false, LUTW => 2
                 | false, LUTK => 3
                 | true, LUTK => 0
                 | true, LUTW => 1
                 | true, LUTR => 2
                 | true, LUTBD => 3
                 end in
  let reg := u8 (N.shiftl (if external_lut c then 1 else 0) 5) in
  cmd_with_data CS_M1 PanelSetting (DLit [N.lor reg 0x0F]) ;;
  cmd_with_data CS_S1 PanelSetting (DLit [N.lor reg 0x0F]) ;;
  cmd_with_data CS_M2 PanelSetting (DLit [N.lor reg 0x03]) ;;
  cmd_with_data CS_S2 PanelSetting (DLit [N.lor reg 0x03]) ;;
  let bdv := u8 (N.shiftl bdv 4) in
  cmd_with_data CS_ALL VcomAndDataIntervalSetting (DLit [N.lor bdv ddx; 0x07]) ;;
  flush.

Definition resolution_data (r : rect) : list N :=
  [ u8 (rw r / 256); u8 (rw r mod 256); u8 (rh r / 256); u8 (rh r mod 256) ].

Definition init (c : config) : B unit :=
  cmd_with_data CS_ALL BoosterSoftStart (DLit [0x17; 0x17; 0x39; 0x17]) ;;
  cmd_with_data CS_M1 TconResolution (DLit (resolution_data M1_RECT)) ;;
  cmd_with_data CS_S1 TconResolution (DLit (resolution_data S1_RECT)) ;;
  cmd_with_data CS_M2 TconResolution (DLit (resolution_data M2_RECT)) ;;
  cmd_with_data CS_S2 TconResolution (DLit (resolution_data S2_RECT)) ;;
  cmd_with_data CS_ALL DualSPI (DLit [0x20]) ;;
  cmd_with_data CS_ALL TconSetting (DLit [0x22]) ;;
  cmd_with_data CS_ALL PowerSaving (DLit [0x00]) ;;
  cmd_with_data CS_ALL CascadeSetting (DLit [0x03]) ;;
  cmd_with_data CS_ALL ForceTemperature (DLit [25]) ;;
  set_mode c ;;
  flush.

(** ** window tiling *)
Definition obind {A C} (o : option A) (f : A -> option C) : option C :=
  match o with Some a => f a | None => None end.

(** [partial_window_data]; [None] = u32 overflow/underflow (debug panic) *)
Definition partial_window_data (window : rect) (reverse_scan : option N) : option (list N) :=
  if Rect.is_empty window then
    Some [0x00; 0x00; 0xFF; 0xFF; 0x00; 0x00; 0xFF; 0xFF; 0x01]
  else
    obind (match reverse_scan with
           | Some width => obind (Rect.sub32 width (rx window)) (fun a => Rect.sub32 a (rw window))
           | None => Some (rx window)
           end) (fun start_x =>
    obind (obind (Rect.add32 start_x (rw window)) (fun a => Rect.sub32 a 1)) (fun end_x =>
    let start_y := ry window in
    obind (obind (Rect.add32 start_y (rh window)) (fun a => Rect.sub32 a 1)) (fun end_y =>
    Some [ u8 (start_x / 256); u8 (start_x mod 256);
           u8 (end_x / 256); u8 (end_x mod 256);
           u8 (start_y / 256); u8 (start_y mod 256);
           u8 (end_y / 256); u8 (end_y mod 256);
           0x01 ]))).

(** [window.intersect(R).sub_offset(R.x, R.y)] *)
Definition sub_part (window r : rect) : option rect :=
  obind (Rect.intersect window r) (fun p => Rect.sub_offset p (rx r) (ry r)).

Definition setup_partial_windows (window : rect) : B unit :=
  s2_part <- lift (sub_part window S2_RECT) ;;
  m2_part <- lift (sub_part window M2_RECT) ;;
  m1_part <- lift (sub_part window M1_RECT) ;;
  s1_part <- lift (sub_part window S1_RECT) ;;
  d <- lift (partial_window_data s2_part (Some (rw S2_RECT))) ;;
  cmd_with_data CS_S2 PartialWindow (DLit d) ;;
  d <- lift (partial_window_data m2_part (Some (rw M2_RECT))) ;;
  cmd_with_data CS_M2 PartialWindow (DLit d) ;;
  d <- lift (partial_window_data m1_part None) ;;
  cmd_with_data CS_M1 PartialWindow (DLit d) ;;
  d <- lift (partial_window_data s1_part None) ;;
  cmd_with_data CS_S1 PartialWindow (DLit d).

(** the [row_offset] closure of [write_window_data] ([len] = pixels.len() > 0) *)
Definition row_offset (left_bytes right_bytes len row : N) : N :=
  let offset := row * (left_bytes + right_bytes) in
  if offset <? len then offset else offset mod len.

(** [&pixels[begin..end]] of the buffer of call [k]; out of range = panic *)
Definition slice (k len begin_ end_ : N) : B dexp :=
  if (begin_ <=? end_) && (end_ <=? len) then ret (DArg k 0 begin_ (end_ - begin_)) else panic.

Definition write_window_data (k : N) (transmission_cmd : N) (window : rect) (len : N) : B unit :=
  assert (negb (len =? 0)) ;;
  s2_part <- lift (Rect.intersect window S2_RECT) ;;
  s1_part <- lift (Rect.intersect window S1_RECT) ;;
  let top_rows := rh s2_part in
  let bottom_rows := rh s1_part in
  let left_bytes := rw s2_part / 8 in
  let right_bytes := rw s1_part / 8 in
  let row_offset := row_offset left_bytes right_bytes len in
  when_ (0 <? top_rows)
    (when_ (0 <? left_bytes)
       (cmd CS_S2 transmission_cmd ;;
        for_rows (N.to_nat top_rows) 0 (fun y =>
          let begin_ := row_offset y in
          let end_ := begin_ + left_bytes in
          d <- slice k len begin_ end_ ;;
          spi_write (N.lor CS_S2 CS_DATA) d)) ;;
     when_ (0 <? right_bytes)
       (cmd CS_M2 transmission_cmd ;;
        for_rows (N.to_nat top_rows) 0 (fun y =>
          let begin_ := row_offset y + left_bytes in
          let end_ := begin_ + right_bytes in
          d <- slice k len begin_ end_ ;;
          spi_write (N.lor CS_M2 CS_DATA) d))) ;;
  when_ (0 <? bottom_rows)
    (when_ (0 <? left_bytes)
       (cmd CS_M1 transmission_cmd ;;
        for_rows (N.to_nat bottom_rows) 0 (fun y =>
          let begin_ := row_offset (top_rows + y) in
          let end_ := begin_ + left_bytes in
          d <- slice k len begin_ end_ ;;
          spi_write (N.lor CS_M1 CS_DATA) d)) ;;
     when_ (0 <? right_bytes)
       (cmd CS_S1 transmission_cmd ;;
        for_rows (N.to_nat bottom_rows) 0 (fun y =>
          let begin_ := row_offset (top_rows + y) + left_bytes in
          let end_ := begin_ + right_bytes in
          d <- slice k len begin_ end_ ;;
          spi_write (N.lor CS_S1 CS_DATA) d))).

Definition write_partial (k : N) (transmission_cmd : N) (window : rect) (len : N) : B unit :=
  assert (negb (negb (rx window mod 8 =? 0) || negb (rw window mod 8 =? 0))) ;;
  cmd CS_ALL PartialIn ;;
  setup_partial_windows window ;;
  write_window_data k transmission_cmd window len ;;
  cmd CS_ALL PartialOut.

(** ** public methods *)
Definition write_data1 (k len : N) : B unit :=
  write_window_data k DataStartTransmission1 FULL_RECT len ;;
  flush.

Definition write_data2 (k len : N) : B unit :=
  write_window_data k DataStartTransmission2 FULL_RECT len ;;
  flush.

Definition write_data1_partial (k : N) (window : rect) (len : N) : B unit :=
  write_partial k DataStartTransmission1 window len ;;
  flush.

Definition write_data2_partial (k : N) (window : rect) (len : N) : B unit :=
  write_partial k DataStartTransmission2 window len ;;
  flush.

Definition set_lut (k : N) (command : N) (len : N) (reqd_len : N) : B unit :=
  cmd_with_data CS_ALL command (DArg k 0 0 len) ;;
  when_ (len <? reqd_len)
    (spi_write (N.lor CS_ALL CS_DATA) (DRep 0 (reqd_len - len))) ;;
  flush.

Definition set_lutc (k len : N) : B unit := set_lut k LutC len 60.
Definition set_lutww (k len : N) : B unit := set_lut k LutWW len 42.
Definition set_lutkw_lutr (k len : N) : B unit := set_lut k LutKW_LutR len 60.
Definition set_lutwk_lutw (k len : N) : B unit := set_lut k LutWK_LutW len 60.
Definition set_lutkk_lutk (k len : N) : B unit := set_lut k LutKK_LutK len 60.
Definition set_lutbd (k len : N) : B unit := set_lut k LutBD len 42.

Definition begin_refresh_display : B unit :=
  cmd CS_ALL PowerOn ;;
  wait_ready CS_ALL ;;
  delay_ms 100 ;;
  cmd CS_ALL DisplayRefresh ;;
  flush.

Definition refresh_display : B unit :=
  begin_refresh_display ;;
  wait_ready CS_ALL.

Definition begin_refresh_display_partial (window : rect) : B unit :=
  setup_partial_windows window ;;
  cmd CS_ALL PowerOn ;;
  wait_ready CS_ALL ;;
  delay_ms 100 ;;
  cmd CS_ALL PartialIn ;;
  cmd CS_ALL DisplayRefresh ;;
  cmd CS_ALL PartialOut ;;
  flush.

Definition refresh_display_partial (window : rect) : B unit :=
  begin_refresh_display_partial window ;;
  wait_ready CS_ALL.

Definition power_off : B unit :=
  cmd CS_ALL PowerOff ;;
  wait_ready CS_ALL ;;
  flush.

Definition hibernate : B unit :=
  cmd CS_ALL PowerOff ;;
  wait_ready CS_ALL ;;
  cmd_with_data CS_ALL DeepSleep (DLit [0xA5]) ;;
  flush.

Definition get_busy : B unit := busy_chips CS_ALL.
Definition is_busy : B unit := busy_chips CS_ALL.

(** one iteration of the loop of [get_status] *)
Definition get_status_chip (cs dc : pin) : B unit :=
  set_pin cs false ;;
  set_pin dc false ;;
  delay_ns 100 ;;
  emit (BWrite (DLit [GetStatus])) ;;
  emit BFlush ;;
  delay_ns 100 ;;
  set_pin dc true ;;
  delay_ns 100 ;;
  emit (BRead 1) ;;
  delay_ns 100 ;;
  set_pin dc false ;;
  set_pin cs true ;;
  delay_ns 100.

Definition get_status : B unit :=
  set_control_state 0xFF ;;
  get_status_chip CsM1 Dc1 ;;
  get_status_chip CsS1 Dc1 ;;
  get_status_chip CsM2 Dc2 ;;
  get_status_chip CsS2 Dc2 ;;
  set_control_state 0.

(** [new]: [control_state: 0], no HAL traffic *)
Definition new_control_state : N := 0.

Definition returning (kd : bkind) (m : B unit) : B bkind := m ;; ret kd.

(** ** exec: call index -> method -> control_state -> (result, control_state, trace).
    Result [None] = the method panics (fault-free run). *)
Definition exec (k : N) (o : bop) : B bkind :=
  match o with
  | OReset => returning KUnit reset
  | OInit c => returning KUnit (init c)
  | OSetMode c => returning KUnit (set_mode c)
  | OWriteData1 len => returning KUnit (write_data1 k len)
  | OWriteData2 len => returning KUnit (write_data2 k len)
  | OWriteData1Partial window len => returning KUnit (write_data1_partial k window len)
  | OWriteData2Partial window len => returning KUnit (write_data2_partial k window len)
  | OSetLutC len => returning KUnit (set_lutc k len)
  | OSetLutWW len => returning KUnit (set_lutww k len)
  | OSetLutKW_LutR len => returning KUnit (set_lutkw_lutr k len)
  | OSetLutWK_LutW len => returning KUnit (set_lutwk_lutw k len)
  | OSetLutKK_LutK len => returning KUnit (set_lutkk_lutk k len)
  | OSetLutBD len => returning KUnit (set_lutbd k len)
  | ORefreshDisplay => returning KUnit refresh_display
  | OBeginRefreshDisplay => returning KUnit begin_refresh_display
  | ORefreshDisplayPartial window => returning KUnit (refresh_display_partial window)
  | OBeginRefreshDisplayPartial window => returning KUnit (begin_refresh_display_partial window)
  | OPowerOff => returning KUnit power_off
  | OHibernate => returning KUnit hibernate
  | OGetBusy => returning KMask get_busy
  | OIsBusy => returning KBool is_busy
  | OGetStatus => returning KStatus get_status
  end.

(** * Expansion against a world *)

(** HAL events as the embedded-hal mocks see them *)
Inductive bhal :=
| HPin (p : pin) (lvl : bool)
| HWrite (e : dexp) (ok : bool)      (* SpiBus::write and whether it returned Ok *)
| HFlush
| HRead (l : list N)                 (* SpiBus::read and the bytes it delivered *)
| HPoll (p : bpin) (ans : bool)      (* is_low() and its answer (true = busy) *)
| HDelay (u : dunit) (n : N).

(** a busy input: raw levels (true = high = ready); once exhausted the line alternates starting
    at [bs_phase] (as Hal.BStream) *)
Record bstream := mkBS { bs_levels : list bool; bs_phase : bool }.

Definition poll_level (s : bstream) : bool * bstream :=
  match bs_levels s with
  | l :: r => (l, mkBS r (bs_phase s))
  | [] => (bs_phase s, mkBS [] (negb (bs_phase s)))
  end.

Record bworld := mkBW {
  w_m1 : bstream; w_s1 : bstream; w_m2 : bstream; w_s2 : bstream;
  w_fault : option N;        (* successful SpiBus::write calls left before the failing one *)
  w_miso : list N            (* bytes delivered by SpiBus::read; 0 once exhausted *)
}.

Definition get_stream (p : bpin) (w : bworld) : bstream :=
  match p with BM1 => w_m1 w | BS1 => w_s1 w | BM2 => w_m2 w | BS2 => w_s2 w end.
Definition set_stream (p : bpin) (s : bstream) (w : bworld) : bworld :=
  match p with
  | BM1 => mkBW s (w_s1 w) (w_m2 w) (w_s2 w) (w_fault w) (w_miso w)
  | BS1 => mkBW (w_m1 w) s (w_m2 w) (w_s2 w) (w_fault w) (w_miso w)
  | BM2 => mkBW (w_m1 w) (w_s1 w) s (w_s2 w) (w_fault w) (w_miso w)
  | BS2 => mkBW (w_m1 w) (w_s1 w) (w_m2 w) s (w_fault w) (w_miso w)
  end.
Definition set_fault (f : option N) (w : bworld) : bworld :=
  mkBW (w_m1 w) (w_s1 w) (w_m2 w) (w_s2 w) f (w_miso w).
Definition set_miso (l : list N) (w : bworld) : bworld :=
  mkBW (w_m1 w) (w_s1 w) (w_m2 w) (w_s2 w) (w_fault w) l.

Inductive outcome := OOk | OErr | OPanic | ODiverged.

(** expansion state: world, control_state, result of the last [busy_chips], bytes read so far
    (reversed), events so far (reversed) *)
Record xstate := mkX {
  x_w : bworld;
  x_cs : N;
  x_mask : N;
  x_rd : list N;
  x_acc : list bhal
}.

Definition push (e : bhal) (x : xstate) : xstate :=
  mkX (x_w x) (x_cs x) (x_mask x) (x_rd x) (e :: x_acc x).

Definition chip_of (p : bpin) : N :=
  match p with BM1 => CS_M1 | BS1 => CS_S1 | BM2 => CS_M2 | BS2 => CS_S2 end.

(** [chips & CS_x != 0 && x_busy.is_low()?]: the pin is only polled when selected *)
Definition poll_chip (chips : N) (p : bpin) (x : xstate) (busy : N) : xstate * N :=
  if N.land chips (chip_of p) =? 0 then (x, busy)
  else
    let '(lvl, s') := poll_level (get_stream p (x_w x)) in
    let ans := negb lvl in
    (mkX (set_stream p s' (x_w x)) (x_cs x) (x_mask x) (x_rd x) (HPoll p ans :: x_acc x),
     if ans then N.lor busy (chip_of p) else busy).

(** one [busy_chips(chips)] *)
Definition x_busy_chips (chips : N) (x : xstate) : xstate * N :=
  let '(x1, b1) := poll_chip chips BM1 x 0 in
  let '(x2, b2) := poll_chip chips BS1 x1 b1 in
  let '(x3, b3) := poll_chip chips BM2 x2 b2 in
  poll_chip chips BS2 x3 b3.

(** [wait_ready]; [None] = the loop never terminates in this world *)
Fixpoint x_wait_ready (chips : N) (fuel : nat) (x : xstate) : option xstate :=
  match fuel with
  | O => None
  | S f =>
      let '(x1, busy) := x_busy_chips chips x in
      if busy =? 0 then Some x1
      else x_wait_ready chips f (push (HDelay Dms 200) x1)
  end.

(** rounds that decide a wait loop: once every stream alternates the joint state has period 2 *)
Definition wait_fuel (w : bworld) : nat :=
  let n p := length (bs_levels (get_stream p w)) in
  S (S (S (Nat.max (Nat.max (n BM1) (n BS1)) (Nat.max (n BM2) (n BS2))))).

Fixpoint take_miso (n : nat) (l : list N) : list N * list N :=
  match n with
  | O => ([], l)
  | S m => match l with
           | [] => let '(a, r) := take_miso m [] in (0 :: a, r)
           | b :: t => let '(a, r) := take_miso m t in (b :: a, r)
           end
  end.

Fixpoint bexpand_items (t : list bev) (x : xstate) : outcome * xstate :=
  match t with
  | [] => (OOk, x)
  | BPin p l :: r => bexpand_items r (push (HPin p l) x)
  | BWrite e :: r =>
      match w_fault (x_w x) with
      | Some 0 =>
          (OErr, mkX (set_fault None (x_w x)) (x_cs x) (x_mask x) (x_rd x) (HWrite e false :: x_acc x))
      | f =>
          let f' := match f with Some j => Some (j - 1) | None => None end in
          bexpand_items r (mkX (set_fault f' (x_w x)) (x_cs x) (x_mask x) (x_rd x) (HWrite e true :: x_acc x))
      end
  | BFlush :: r => bexpand_items r (push HFlush x)
  | BRead n :: r =>
      let '(bytes, rest) := take_miso (N.to_nat n) (w_miso (x_w x)) in
      bexpand_items r (mkX (set_miso rest (x_w x)) (x_cs x) (x_mask x) (rev_append bytes (x_rd x))
                           (HRead bytes :: x_acc x))
  | BPollWait chips :: r =>
      match x_wait_ready chips (wait_fuel (x_w x)) x with
      | Some x1 => bexpand_items r x1
      | None => (ODiverged, x)
      end
  | BPoll chips :: r =>
      let '(x1, busy) := x_busy_chips chips x in
      bexpand_items r (mkX (x_w x1) (x_cs x1) busy (x_rd x1) (x_acc x1))
  | BDelay u n :: r => bexpand_items r (push (HDelay u n) x)
  | BSetCs c :: r => bexpand_items r (mkX (x_w x) c (x_mask x) (x_rd x) (x_acc x))
  | BPanic :: _ => (OPanic, x)
  end.

(** Apply world [w] to trace [t] of a call entered with [control_state = cs0].  Returns the
    outcome, the world afterwards, the [control_state] the driver is left with, the result of the
    last [busy_chips], the bytes read (in order) and the HAL events (in order). *)
Definition bexpand (w : bworld) (cs0 : N) (t : list bev)
  : outcome * bworld * N * N * list N * list bhal :=
  match bexpand_items t (mkX w cs0 0 [] []) with
  | (o, x) => (o, x_w x, x_cs x, x_mask x, rev_append (x_rd x) [], rev_append (x_acc x) [])
  end.

(** ** One API call as observed from outside *)
Inductive bval := VUnit | VMask (m : N) | VBool (b : bool) | VStatus (l : list N).
Inductive bres := BROk (v : bval) | BRErr | BRPanic | BRDiverged.

(** [fault = Some j]: the j-th (0-based) SpiBus::write of this call returns Err *)
Definition call (k : N) (o : bop) (fault : option N) (cs : N) (w : bworld)
  : bres * N * bworld * list bhal :=
  match exec k o cs with
  | (r, _, t) =>
      match bexpand (set_fault fault w) cs t with
      | (out, w1, cs1, mask, rd, evs) =>
          let res := match out with
                     | OOk => match r with
                              | Some KUnit => BROk VUnit
                              | Some KMask => BROk (VMask mask)
                              | Some KBool => BROk (VBool (negb (mask =? 0)))
                              | Some KStatus => BROk (VStatus rd)
                              | None => BRPanic
                              end
                     | OErr => BRErr
                     | OPanic => BRPanic
                     | ODiverged => BRDiverged
                     end in
          (res, cs1, set_fault None w1, evs)
      end
  end.

(* Script driver for the extracted model.  Reads the same scripts as the Rust harness
   (harness/src/main.rs) and prints the same canonical lines.  Hand-written glue: trusted for the
   correspondence check, not for the theorems. *)
module L = Stdlib.List
open BinNums

open Util

(* ---------------------------------------------------------------- canonical printing *)

let print_events (buf : Buffer.t) (evs : Hal.hal list) (dc0 : bool option) (full : bool) : bool option =
  let dc = ref dc0 in
  let run = Buffer.create 1024 in
  let sg : (bool * int * int) list ref = ref [] in   (* reversed *)
  let pend_d = ref false in
  let flush () =
    if !sg <> [] then begin
      let h1 = ref 0 and h2 = ref 0 in
      String.iter (fun c -> let b = Char.code c + 1 in
                    h1 := (!h1 * b1 + b) mod p1; h2 := (!h2 * b2 + b) mod p2) (Buffer.contents run);
      let s = String.concat "," (L.rev_map (fun (d, a, b) ->
                  Printf.sprintf "%s%d*%d" (if d then "d" else "") a b) !sg) in
      Buffer.add_string buf (Printf.sprintf "Z %d %d %d %s" (Buffer.length run) !h1 !h2 s);
      (let c = Buffer.contents run in
       if String.length c > hexmax && String.for_all (fun x -> x = c.[0]) c then
         Buffer.add_string buf (Printf.sprintf " u=%02x" (Char.code c.[0])));
      if full || Buffer.length run <= hexmax then begin
        Buffer.add_char buf ' ';
        String.iter (fun c -> Buffer.add_string buf (Printf.sprintf "%02x" (Char.code c))) (Buffer.contents run)
      end;
      Buffer.add_char buf '\n';
      Buffer.clear run; sg := []
    end;
    if !pend_d then begin Buffer.add_string buf "D1\n"; pend_d := false end
  in
  let hexl l = String.concat "" (L.map (fun b -> Printf.sprintf "%02x" (int_of_n b)) l) in
  L.iter (fun (e : Hal.hal) ->
      match e with
      | Hal.HSpi (bytes, true) when !dc = Some true ->
          let n = L.length bytes in
          L.iter (fun b -> Buffer.add_char run (Char.chr (int_of_n b land 255))) bytes;
          let d = !pend_d in
          pend_d := false;
          (match !sg with
           | (dd, a, b) :: r when a = n && dd = d -> sg := (dd, a, b + 1) :: r
           | _ -> sg := (d, n, 1) :: !sg)
      | Hal.HDc true when !dc = Some true && not !pend_d -> pend_d := true
      | _ ->
          flush ();
          (match e with
           | Hal.HDc l -> dc := Some l; Buffer.add_string buf (if l then "D1\n" else "D0\n")
           | Hal.HRst l -> Buffer.add_string buf (if l then "R1\n" else "R0\n")
           | Hal.HSpi (bytes, ok) ->
               let n = L.length bytes in
               if not ok then
                 Buffer.add_string buf (Printf.sprintf "X%s %d\n"
                   (match !dc with Some true -> "1" | Some false -> "0" | None -> "u") n)
               else if !dc = Some false then begin
                 if n = 1 then Buffer.add_string buf (Printf.sprintf "C %s\n" (hexl bytes))
                 else Buffer.add_string buf (Printf.sprintf "CL %d %s\n" n (hexl bytes))
               end else Buffer.add_string buf (Printf.sprintf "U %d %s\n" n (hexl bytes))
           | Hal.HPoll (low, ans) ->
               Buffer.add_string buf (Printf.sprintf "P %s %d\n" (if low then "L" else "H") (if ans then 1 else 0))
           | Hal.HDelay (u, n) ->
               Buffer.add_string buf (Printf.sprintf "T %s %d\n"
                 (match u with Iface.Dns -> "n" | Iface.Dus -> "u" | Iface.Dms -> "m") (int_of_n n))))
    evs;
  flush ();
  !dc

(* ---------------------------------------------------------------- buffers *)
let bufs : (int * int, Bytes.t) Hashtbl.t = Hashtbl.create 16

let add_buf call arg spec =
  match String.split_on_char ':' spec with
  | len :: kind :: rest ->
      let len = int_of_string len in
      let seed = match rest with s :: _ -> int_of_string s | [] -> 0 in
      let b = Bytes.init len (fun i -> Char.chr (gen_byte kind.[0] seed i)) in
      Hashtbl.replace bufs (call, arg) b;
      n_of_int len
  | _ -> failwith "buffer spec"

let scribble call =
  Hashtbl.iter (fun (c, _) b ->
      if c = call then
        Bytes.iteri (fun i _ -> Bytes.set b i (Char.chr (0xA5 lxor ((i * 31) land 0xff)))) b) bufs

let rho : Hal.env = fun c a i ->
  match Hashtbl.find_opt bufs (int_of_n c, int_of_n a) with
  | Some b -> let i = int_of_n i in
              if i < Bytes.length b then n_of_int (Char.code (Bytes.get b i)) else n_of_int 0
  | None -> n_of_int 0

(* ---------------------------------------------------------------- scripts *)
let panel_of_string = function
  | "epd1in02" -> Panels.P1in02 | "epd1in54" -> Panels.P1in54 | "epd1in54_v2" -> Panels.P1in54_v2
  | "epd1in54b" -> Panels.P1in54b | "epd1in54c" -> Panels.P1in54c | "epd2in13_v2" -> Panels.P2in13_v2
  | "epd2in13b_v4" -> Panels.P2in13b_v4 | "epd2in13bc" -> Panels.P2in13bc | "epd2in66b" -> Panels.P2in66b
  | "epd2in7" -> Panels.P2in7 | "epd2in7_v2" -> Panels.P2in7_v2 | "epd2in7b" -> Panels.P2in7b
  | "epd2in9" -> Panels.P2in9 | "epd2in9_v2" -> Panels.P2in9_v2 | "epd2in9b_v4" -> Panels.P2in9b_v4
  | "epd2in9bc" -> Panels.P2in9bc | "epd2in9d" -> Panels.P2in9d | "epd3in7" -> Panels.P3in7
  | "epd4in2" -> Panels.P4in2 | "epd5in65f" -> Panels.P5in65f | "epd5in83_v2" -> Panels.P5in83_v2
  | "epd5in83b_v2" -> Panels.P5in83b_v2 | "epd7in3f" -> Panels.P7in3f | "epd7in5" -> Panels.P7in5
  | "epd7in5_hd" -> Panels.P7in5_hd | "epd7in5_v2" -> Panels.P7in5_v2 | "epd7in5b_v2" -> Panels.P7in5b_v2
  | s -> failwith ("unknown panel " ^ s)

let color_code = function
  | "black" -> 0 | "white" -> 1 | "chromatic" -> 2
  | "green" -> 2 | "blue" -> 3 | "red" -> 4 | "yellow" -> 5 | "orange" -> 6 | "hiz" -> 7
  | s -> failwith ("colour " ^ s)
let tri_names = [| "black"; "white"; "chromatic" |]
let oct_names = [| "black"; "white"; "green"; "blue"; "red"; "yellow"; "orange"; "hiz" |]

let lut_of = function "none" -> None | "full" -> Some (n_of_int 0) | "quick" -> Some (n_of_int 1)
                      | s -> failwith ("lut " ^ s)

let parse_busy (s : string) : Hal.busymodel =
  match String.split_on_char ':' s with
  | "s" :: rest ->
      let bits = match rest with b :: _ -> b | [] -> "" in
      Hal.BStream (L.init (String.length bits) (fun i -> bits.[i] = '1'), true)
  | "a" :: pol :: cmds :: rest ->
      let durs = match rest with d :: _ -> d | [] -> "" in
      let sp s = L.filter (fun x -> x <> "") (String.split_on_char ',' s) in
      Hal.BAuto (pol = "low",
                 L.map (fun x -> n_of_int (int_of_string ("0x" ^ x))) (sp cmds),
                 L.map (fun x -> n_of_int (int_of_string x)) (sp durs), N0)
  | _ -> failwith "busy spec"

let parse_op (k : int) (t : string list) : Ops.op =
  let n s = n_of_int (int_of_string s) in
  let b a s = add_buf k a s in
  match t with
  | ["sleep"] -> Ops.OSleep | ["wake_up"] -> Ops.OWakeUp
  | ["set_background_color"; c] -> Ops.OSetBg (n_of_int (color_code c))
  | ["background_color"] -> Ops.OGetBg | ["width"] -> Ops.OWidth | ["height"] -> Ops.OHeight
  | ["update_frame"; s] -> Ops.OUpdateFrame (b 0 s)
  | ["update_partial_frame"; s; x; y; w; h] -> Ops.OUpdatePartial (b 0 s, n x, n y, n w, n h)
  | ["display_frame"] -> Ops.ODisplay
  | ["update_and_display_frame"; s] -> Ops.OUpdateAndDisplay (b 0 s)
  | ["clear_frame"] -> Ops.OClear
  | ["set_lut"; r] -> Ops.OSetLut (lut_of r)
  | ["wait_until_idle"] -> Ops.OWaitIdle
  | ["update_color_frame"; s1; s2] -> let l1 = b 0 s1 in let l2 = b 1 s2 in Ops.OUpdateColor (l1, l2)
  | ["update_achromatic_frame"; s] -> Ops.OUpdateAchromatic (b 0 s)
  | ["update_chromatic_frame"; s] -> Ops.OUpdateChromatic (b 0 s)
  | ["update_old_frame"; s] -> Ops.OUpdateOld (b 0 s)
  | ["update_new_frame"; s] -> Ops.OUpdateNew (b 0 s)
  | ["display_new_frame"] -> Ops.ODisplayNew
  | ["update_and_display_new_frame"; s] -> Ops.OUpdateAndDisplayNew (b 0 s)
  | ["update_partial_old_frame"; s; x; y; w; h] -> Ops.OUpdatePartialOld (b 0 s, n x, n y, n w, n h)
  | ["update_partial_new_frame"; s; x; y; w; h] -> Ops.OUpdatePartialNew (b 0 s, n x, n y, n w, n h)
  | ["clear_partial_frame"; x; y; w; h] -> Ops.OClearPartial (n x, n y, n w, n h)
  | ["set_partial_base_buffer"; s] -> Ops.OSetPartialBase (b 0 s)
  | ["set_refresh"; r] -> Ops.OSetRefresh (match lut_of r with Some v -> v | None -> failwith "set_refresh")
  | ["set_border_color"; c] -> Ops.OSetBorder (n_of_int (color_code c))
  | ["display_partial_frame"; x; y; w; h] -> Ops.ODisplayPartial (n x, n y, n w, n h)
  | ["update_partial_achromatic_frame"; s; x; y; w; h] -> Ops.OUpdatePartialAchromatic (b 0 s, n x, n y, n w, n h)
  | ["update_partial_chromatic_frame"; s; x; y; w; h] -> Ops.OUpdatePartialChromatic (b 0 s, n x, n y, n w, n h)
  | ["update_and_display_frame_base"; s1; s2] ->
      let l1 = b 0 s1 in
      Ops.OUpdateAndDisplayBase (l1, if s2 = "none" then None else Some (b 1 s2))
  | ["display_frame_partial"] -> Ops.ODisplayFramePartial
  | ["shift_display"; x; y; w; h] -> Ops.OShiftDisplay (n x, n y, n w, n h)
  | ["show_7block"] -> Ops.OShow7Block
  | ["update_partial_frame2"; s; x; y; w; h] -> Ops.OUpdatePartial2 (b 0 s, n x, n y, n w, n h)
  | _ -> failwith ("bad op line: " ^ String.concat " " t)

type case = {
  id : string; panel : string; delay : int option; busy : string;
  fault : (int * int) option; scribble : bool; ops : string list list }

let parse_cases (path : string) : case list =
  let ic = open_in path in
  let cases = ref [] and cur = ref None in
  (try
     while true do
       let line = input_line ic in
       let t = L.filter (fun x -> x <> "") (String.split_on_char ' ' (String.trim line)) in
       match t with
       | [] -> ()
       | w :: _ when w.[0] = '#' -> ()
       | "case" :: id :: kvs ->
           let c = ref { id; panel = ""; delay = None; busy = "s:"; fault = None; scribble = false; ops = [] } in
           L.iter (fun kv ->
               match String.index_opt kv '=' with
               | None -> failwith "k=v"
               | Some i ->
                   let k = String.sub kv 0 i and v = String.sub kv (i + 1) (String.length kv - i - 1) in
                   (match k with
                    | "panel" -> c := { !c with panel = v }
                    | "delay" -> c := { !c with delay = if v = "none" then None else Some (int_of_string v) }
                    | "busy" -> c := { !c with busy = v }
                    | "fault" ->
                        c := { !c with fault =
                          if v = "none" then None
                          else (match String.split_on_char ':' v with
                                | [a; b] -> Some (int_of_string a, int_of_string b)
                                | _ -> failwith "fault") }
                    | "scribble" -> c := { !c with scribble = (v = "1") }
                    | _ -> failwith ("case key " ^ k))) kvs;
           cur := Some !c
       | ["end"] ->
           (match !cur with
            | Some c -> cases := { c with ops = L.rev c.ops } :: !cases; cur := None
            | None -> ())
       | t -> (match !cur with Some c -> cur := Some { c with ops = t :: c.ops } | None -> ())
     done
   with End_of_file -> close_in ic);
  L.rev !cases

let feat_of_env () : Ops.feat =
  let f = try Stdlib.Sys.getenv "EPD_FEAT" with Not_found -> "v3" in
  { Ops.f_v2 = (f = "v2"); Ops.f_alt = (f = "alt") }

let color_name (panel : string) (c : int) : string =
  let oct = (panel = "epd5in65f" || panel = "epd7in3f") in
  if oct then oct_names.(c land 7) else tri_names.(c mod 3)

let run_case (full : bool) (c : case) : unit =
  let out = Buffer.create 65536 in
  Hashtbl.reset bufs;
  if c.panel = "epd12in48b_v2" then begin
    Big.run_case full c.id c.delay c.busy c.fault c.scribble c.ops out;
    print_string (Buffer.contents out)
  end else begin
  let drv = Panels.driver_of (feat_of_env ()) (panel_of_string c.panel) in
  let cfg = Hal.mk_cfg drv.Ops.d_sbw (match c.delay with None -> None | Some d -> Some (n_of_int d)) in
  let w = ref { Hal.w_busy = parse_busy c.busy; Hal.w_fault = None; Hal.w_rst = None } in
  let d : Iface.dstate option ref = ref None in
  let dc = ref None in
  Buffer.add_string out (Printf.sprintf "case %s\n" c.id);
  let stop = ref false in
  L.iteri (fun i t -> if not !stop then begin
      let fault = match c.fault with Some (oi, k) when oi = i -> Some (n_of_int k) | _ -> None in
      let res, evs =
        if t = ["new"] then begin
          let (((r, d'), w'), evs) = Run.construct drv cfg rho fault !w in
          d := d'; w := w'; (r, evs)
        end else
          match !d with
          | None -> (Run.CRUnsupported, [])
          | Some ds ->
              let o = parse_op i t in
              let (((r, d'), w'), evs) = Run.call drv cfg rho (n_of_int i) o fault ds !w in
              d := Some d'; w := w'; (r, evs)
      in
      if c.scribble then scribble i;
      Buffer.add_string out (Printf.sprintf "op %d %s\n" i (L.hd t));
      if res = Run.CRDiverged then begin stop := true; Buffer.add_string out "= DIVERGED\n" end else begin
      let t1 = Stdlib.Sys.time () in dc := print_events out evs !dc full; if Stdlib.Sys.getenv_opt "EPD_PROF" <> None then prerr_endline (Printf.sprintf "print %.3f" (Stdlib.Sys.time () -. t1));
      Buffer.add_string out
        (match res with
         | Run.CROk Iface.RUnit -> "= OK\n"
         | Run.CROk (Iface.RNum n) -> Printf.sprintf "= OK %d\n" (int_of_n n)
         | Run.CROk (Iface.RColor n) -> Printf.sprintf "= OK %s\n" (color_name c.panel (int_of_n n))
         | Run.CROk Iface.RUnsupported -> "= UNSUPPORTED\n"
         | Run.CRErr -> "= ERR\n"
         | Run.CRPanic -> "= PANIC\n"
         | Run.CRUnsupported -> "= UNSUPPORTED\n"
         | Run.CRDiverged -> "= DIVERGED\n") end end)
    c.ops;
  Buffer.add_string out "end\n";
  print_string (Buffer.contents out)
  end

let () =
  match Array.to_list Stdlib.Sys.argv with
  | _ :: "run" :: rest ->
      let full = L.mem "--full" rest in
      let path = L.nth rest (L.length rest - 1) in
      L.iter (run_case full) (parse_cases path)
  | _ :: "pure" :: rest when rest <> [] -> Pure.main (L.nth rest (L.length rest - 1))
  | [_; "oracle"; script; trace] ->
      Orc.main parse_op bufs panel_of_string (feat_of_env ()) script trace
  | _ -> prerr_endline "usage: driver run [--full] <script> | driver pure <queryfile> | driver oracle <script> <realtrace>"; exit 2

(* Script driver for the extracted 12.48in model (coq/Big/Model.v).  Reads the same op lines as
   harness/src/big.rs and prints the same canonical lines.  Hand-written glue: trusted for the
   correspondence check, not for the theorems. *)
module L = Stdlib.List
open BinNums
open Util

(* ---------------------------------------------------------------- buffers *)
let bufs : (int * int, Bytes.t) Hashtbl.t = Hashtbl.create 16
let last : ((int * int) * Bytes.t) option ref = ref None

let add_buf call arg spec =
  match String.split_on_char ':' spec with
  | len :: kind :: rest ->
      let len = int_of_string len in
      let seed = match rest with s :: _ -> int_of_string s | [] -> 0 in
      let b = Bytes.init len (fun i -> Char.chr (gen_byte kind.[0] seed i)) in
      Hashtbl.replace bufs (call, arg) b;
      last := None;
      n_of_int len
  | _ -> failwith "buffer spec"

let scribble call =
  Hashtbl.iter (fun (c, _) b ->
      if c = call then
        Bytes.iteri (fun i _ -> Bytes.set b i (Char.chr (0xA5 lxor ((i * 31) land 0xff)))) b) bufs

let find_buf key =
  match !last with
  | Some (k, b) when k = key -> Some b
  | _ ->
      (match Hashtbl.find_opt bufs key with
       | Some b -> last := Some (key, b); Some b
       | None -> None)

let rho : Hal.env = fun c a i ->
  match find_buf (int_of_n c, int_of_n a) with
  | Some b -> let i = int_of_n i in
              if i < Bytes.length b then n_of_int (Char.code (Bytes.get b i)) else n_of_int 0
  | None -> n_of_int 0

(* ---------------------------------------------------------------- printing *)
let pin_name = function
  | Model.CsM1 -> "m1_cs" | Model.CsS1 -> "s1_cs" | Model.CsM2 -> "m2_cs" | Model.CsS2 -> "s2_cs"
  | Model.Dc1 -> "m1s1_dc" | Model.Dc2 -> "m2s2_dc" | Model.Rst1 -> "m1s1_rst" | Model.Rst2 -> "m2s2_rst"
let bpin_name = function
  | Model.BM1 -> "m1_busy" | Model.BS1 -> "s1_busy" | Model.BM2 -> "m2_busy" | Model.BS2 -> "s2_busy"

let bytes_of (l : coq_N list) : string =
  let b = Buffer.create 128 in
  L.iter (fun x -> Buffer.add_char b (Char.chr (int_of_n x land 255))) l;
  Buffer.contents b

let hexs (s : string) : string =
  let b = Buffer.create (2 * String.length s) in
  String.iter (fun c -> Buffer.add_string b (Printf.sprintf "%02x" (Char.code c))) s;
  Buffer.contents b

let print_events (out : Buffer.t) (evs : Model.bhal list) (full : bool) : unit =
  L.iter (fun (e : Model.bhal) ->
      match e with
      | Model.HPin (p, l) -> Buffer.add_string out (Printf.sprintf "N %s %d\n" (pin_name p) (if l then 1 else 0))
      | Model.HWrite (d, true) ->
          let s = bytes_of (Hal.den rho d) in
          let n = String.length s in
          let (h1, h2) = hash2 s in
          Buffer.add_string out (Printf.sprintf "W %d %d %d" n h1 h2);
          if n > 0 && (full || n <= hexmax) then begin
            Buffer.add_char out ' '; Buffer.add_string out (hexs s)
          end;
          Buffer.add_char out '\n'
      | Model.HWrite (d, false) ->
          Buffer.add_string out (Printf.sprintf "WX %d\n" (int_of_n (Iface.dlen d)))
      | Model.HFlush -> Buffer.add_string out "S flush 0\n"
      | Model.HRead l -> Buffer.add_string out (Printf.sprintf "S read %d\n" (L.length l))
      | Model.HPoll (p, ans) ->
          Buffer.add_string out (Printf.sprintf "PN %s L %d\n" (bpin_name p) (if ans then 1 else 0))
      | Model.HDelay (u, n) ->
          Buffer.add_string out (Printf.sprintf "T %s %d\n"
            (match u with Iface.Dns -> "n" | Iface.Dus -> "u" | Iface.Dms -> "m") (int_of_n n)))
    evs

(* ---------------------------------------------------------------- scripts *)
(* m:<bitsM1>/<bitsS1>/<bitsM2>/<bitsS2>, 1 = high = ready; afterwards high, low, high, ... *)
let parse_busy (s : string) : Model.bworld =
  let stream bits =
    { Model.bs_levels = L.init (String.length bits) (fun i -> bits.[i] = '1'); Model.bs_phase = true } in
  if String.length s < 2 || String.sub s 0 2 <> "m:" then failwith "busy spec m:a/b/c/d";
  match String.split_on_char '/' (String.sub s 2 (String.length s - 2)) with
  | [a; b; c; d] ->
      { Model.w_m1 = stream a; Model.w_s1 = stream b; Model.w_m2 = stream c; Model.w_s2 = stream d;
        Model.w_fault = None; Model.w_miso = [] }
  | _ -> failwith "busy spec m:a/b/c/d"

let parse_op (k : int) (t : string list) : Model.bop =
  let n s = n_of_int (int_of_string s) in
  let b s = add_buf k 0 s in
  let rect x y w h = { Rect.rx = n x; Rect.ry = n y; Rect.rw = n w; Rect.rh = n h } in
  let config kw r bd ext =
    { Model.inverted_kw = (kw = "1"); Model.inverted_r = (r = "1");
      Model.border_lut = (match bd with
                          | "bd" -> Model.LUTBD | "k" -> Model.LUTK | "w" -> Model.LUTW | "r" -> Model.LUTR
                          | s -> failwith ("border " ^ s));
      Model.external_lut = (ext = "1") } in
  match t with
  | ["reset"] -> Model.OReset
  | ["init"; kw; r; bd; ext] -> Model.OInit (config kw r bd ext)
  | ["set_mode"; kw; r; bd; ext] -> Model.OSetMode (config kw r bd ext)
  | ["write_data1"; s] -> Model.OWriteData1 (b s)
  | ["write_data2"; s] -> Model.OWriteData2 (b s)
  | ["write_data1_partial"; s; x; y; w; h] -> let l = b s in Model.OWriteData1Partial (rect x y w h, l)
  | ["write_data2_partial"; s; x; y; w; h] -> let l = b s in Model.OWriteData2Partial (rect x y w h, l)
  | ["set_lutc"; s] -> Model.OSetLutC (b s)
  | ["set_lutww"; s] -> Model.OSetLutWW (b s)
  | ["set_lutkw_lutr"; s] -> Model.OSetLutKW_LutR (b s)
  | ["set_lutwk_lutw"; s] -> Model.OSetLutWK_LutW (b s)
  | ["set_lutkk_lutk"; s] -> Model.OSetLutKK_LutK (b s)
  | ["set_lutbd"; s] -> Model.OSetLutBD (b s)
  | ["refresh_display"] -> Model.ORefreshDisplay
  | ["begin_refresh_display"] -> Model.OBeginRefreshDisplay
  | ["refresh_display_partial"; x; y; w; h] -> Model.ORefreshDisplayPartial (rect x y w h)
  | ["begin_refresh_display_partial"; x; y; w; h] -> Model.OBeginRefreshDisplayPartial (rect x y w h)
  | ["power_off"] -> Model.OPowerOff
  | ["hibernate"] -> Model.OHibernate
  | ["get_busy"] -> Model.OGetBusy
  | ["is_busy"] -> Model.OIsBusy
  | ["get_status"] -> Model.OGetStatus
  | _ -> failwith ("bad op line: " ^ String.concat " " t)

let run_case (full : bool) (id : string) (_delay : int option) (busy : string)
    (fault : (int * int) option) (scrib : bool) (ops : string list list) (out : Buffer.t) : unit =
  Hashtbl.reset bufs;
  last := None;
  let w = ref (parse_busy busy) in
  let cs : coq_N option ref = ref None in      (* the driver = its control_state; None = not constructed *)
  Buffer.add_string out (Printf.sprintf "case %s\n" id);
  let stop = ref false in
  L.iteri (fun i t -> if not !stop then begin
      let flt = match fault with Some (oi, k) when oi = i -> Some (n_of_int k) | _ -> None in
      let res, evs =
        if t = ["new"] then begin
          cs := Some Model.new_control_state; (Some (Model.BROk Model.VUnit), [])
        end else
          match !cs with
          | None -> (None, [])
          | Some c ->
              let o = parse_op i t in
              let (((r, c'), w'), evs) = Model.call (n_of_int i) o flt c !w in
              cs := Some c'; w := w'; (Some r, evs)
      in
      Buffer.add_string out (Printf.sprintf "op %d %s\n" i (L.hd t));
      if res = Some Model.BRDiverged then begin
        stop := true; Buffer.add_string out "= DIVERGED\n"
      end else begin
        print_events out evs full;
        Buffer.add_string out
          (match res with
           | None -> "= UNSUPPORTED\n"
           | Some (Model.BROk Model.VUnit) -> "= OK\n"
           | Some (Model.BROk (Model.VMask m)) -> Printf.sprintf "= OK %d\n" (int_of_n m)
           | Some (Model.BROk (Model.VBool b)) -> Printf.sprintf "= OK %s\n" (if b then "true" else "false")
           | Some (Model.BROk (Model.VStatus l)) -> Printf.sprintf "= OK %s\n" (hexs (bytes_of l))
           | Some Model.BRErr -> "= ERR\n"
           | Some Model.BRPanic -> "= PANIC\n"
           | Some Model.BRDiverged -> "= DIVERGED\n")
      end;
      (* the events still refer to the buffers symbolically (DArg), so the bytes are looked up while
         printing; scribble (as the harness does once the call has returned) only afterwards *)
      if scrib then scribble i
    end)
    ops;
  Buffer.add_string out "end\n"

(* 12.48in model runs (stub until Iface12 is modelled) *)
let run_case (_full : bool) (id : string) (_delay : int option) (_busy : string)
    (_fault : (int * int) option) (_scribble : bool) (_ops : string list list) (out : Buffer.t) : unit =
  Buffer.add_string out (Printf.sprintf "case %s\nend\n" id)

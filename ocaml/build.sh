#!/bin/sh
# Extract the Coq model and build the OCaml script driver.  Run from anywhere.
set -e
cd "$(dirname "$0")"
mkdir -p gen
cd gen
rm -f *.ml *.mli *.cm* *.o
timeout 600 coqc -Q ../../coq EPD ../../coq/Extract.v > /dev/null
cd ..
FILES=$(ocamlfind ocamldep -sort -I gen gen/*.ml gen/*.mli util.ml big.ml pure.ml orc.ml driver.ml)
timeout 900 ocamlfind ocamlopt -w -a -I gen $FILES -o driver

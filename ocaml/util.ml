(* Shared helpers of the script drivers (hand-written glue). *)
module L = Stdlib.List
open BinNums

let rec pos_of_int (i : int) : positive =
  if i = 1 then Coq_xH
  else if i land 1 = 0 then Coq_xO (pos_of_int (i lsr 1))
  else Coq_xI (pos_of_int (i lsr 1))
let n_of_int (i : int) : coq_N = if i = 0 then N0 else Npos (pos_of_int i)
let rec int_of_pos = function
  | Coq_xH -> 1
  | Coq_xO p -> 2 * int_of_pos p
  | Coq_xI p -> 2 * int_of_pos p + 1
let int_of_n = function N0 -> 0 | Npos p -> int_of_pos p
let z_of_int (i : int) : coq_Z = if i = 0 then Z0 else if i > 0 then Zpos (pos_of_int i) else Zneg (pos_of_int (- i))
let int_of_z = function Z0 -> 0 | Zpos p -> int_of_pos p | Zneg p -> - (int_of_pos p)


let p1 = 2147483647 and b1 = 257 and p2 = 2147483629 and b2 = 65599
let hexmax = 256

(* polynomial hashes of a byte string, as printed in Z/W lines *)
let hash2 (s : string) : int * int =
  let h1 = ref 0 and h2 = ref 0 in
  String.iter (fun c -> let b = Char.code c + 1 in
                h1 := (!h1 * b1 + b) mod p1; h2 := (!h2 * b2 + b) mod p2) s;
  (!h1, !h2)

let gen_byte kind seed i =
  match kind with
  | 'z' -> 0
  | 'f' -> 0xff
  | 'c' -> seed land 0xff
  | _ ->
      let m = 0xFFFFFFFF in
      let x = ((i * 2654435761) land m + (seed * 40503) land m) land m in
      let x = x lxor (x lsr 15) in
      let x = (x * 2246822519) land m in
      let x = x lxor (x lsr 13) in
      x land 0xff


(* Run-time oracle: `driver oracle <script> <realtrace>`.
   Reconstructs, for every API call of every case, the transport calls the IMPLEMENTATION made
   (from the harness trace) and feeds them to the extracted Coq observer (Spec/Oracle.v:
   controller model + property checks).  Prints one line per violated clause:
     F <case> <opidx> <opname> C<nn> <clause> <args...>
   Data runs are lifted to symbolic segments by recognising them (length + two hashes) as a
   caller buffer of the case under one of the panel encodings, as a uniform fill, or as literal
   bytes; anything else becomes an unknown source that matches nothing.  Hand-written glue. *)
module L = Stdlib.List
open BinNums
open Util

let n = n_of_int

(* ------------------------------------------------------------ script side (expectations) *)
type case = { id : string; panel : string; ops : string list list }

let parse_script (path : string) : case list =
  let ic = open_in path in
  let cases = ref [] and cur = ref None in
  (try
     while true do
       let line = input_line ic in
       let t = L.filter (fun x -> x <> "") (String.split_on_char ' ' (String.trim line)) in
       match t with
       | [] -> ()
       | "case" :: id :: kvs ->
           let panel = ref "" in
           L.iter (fun kv -> if String.length kv > 6 && String.sub kv 0 6 = "panel=" then
                      panel := String.sub kv 6 (String.length kv - 6)) kvs;
           cur := Some { id; panel = !panel; ops = [] }
       | ["end"] ->
           (match !cur with Some c -> cases := { c with ops = L.rev c.ops } :: !cases; cur := None | None -> ())
       | t -> (match !cur with Some c -> cur := Some { c with ops = t :: c.ops } | None -> ())
     done
   with End_of_file -> close_in ic);
  L.rev !cases

(* ------------------------------------------------------------ real trace *)
(* -> (case id, [(opidx, name, lines, result)]) list *)
let parse_trace (path : string) =
  let ic = open_in path in
  let cases = ref [] and ops = ref [] and cur = ref None and id = ref "" in
  let flush_op () = match !cur with
    | Some (i, nm, ls, r) -> ops := (i, nm, L.rev ls, r) :: !ops; cur := None
    | None -> () in
  (try
     while true do
       let line = input_line ic in
       if String.length line >= 5 && String.sub line 0 5 = "case " then begin
         id := String.sub line 5 (String.length line - 5); ops := []
       end else if line = "end" then begin
         flush_op (); cases := (!id, L.rev !ops) :: !cases
       end else if String.length line >= 3 && String.sub line 0 3 = "op " then begin
         flush_op ();
         (match String.split_on_char ' ' line with
          | _ :: i :: nm :: _ -> cur := Some (int_of_string i, nm, [], "")
          | _ -> ())
       end else if String.length line >= 2 && String.sub line 0 2 = "= " then
         (match !cur with Some (i, nm, ls, _) -> cur := Some (i, nm, ls, String.sub line 2 (String.length line - 2)) | None -> ())
       else if line <> "" then
         (match !cur with Some (i, nm, ls, r) -> cur := Some (i, nm, line :: ls, r) | None -> ())
     done
   with End_of_file -> close_in ic);
  L.rev !cases

(* ------------------------------------------------------------ recognition of data runs *)
let known : (int * int * int, Iface.icall) Hashtbl.t = Hashtbl.create 64

let bapply_bytes (g : Iface.bytefn) (s : string) : string =
  let b = Buffer.create (String.length s * 2) in
  String.iter (fun c ->
      L.iter (fun v -> Buffer.add_char b (Char.chr (int_of_n v land 255)))
        (Iface.bapply g (n (Char.code c)))) s;
  Buffer.contents b

let register_buffer (slices : (int * int) list) (k : int) (arg : int) (bytes : string) : unit =
  let len = String.length bytes in
  let sl = L.sort_uniq compare ((0, len) :: L.filter (fun (o, l) -> o + l <= len && l > 0) slices) in
  L.iter (fun (off, l) ->
      let sub = String.sub bytes off l in
      L.iter (fun g ->
          let enc = bapply_bytes g sub in
          let (h1, h2) = hash2 enc in
          let key = (String.length enc, h1, h2) in
          (* the most recent call's buffer wins: a later call that sends identical contents is credited with
             its own buffer, not with an earlier call's *)
            Hashtbl.replace known key
              (match g with
               | Iface.BId -> Iface.IData (Iface.DArg (n k, n arg, n off, n l))
               | _ -> Iface.IDataEach (g, Coq_xH, Iface.DArg (n k, n arg, n off, n l))))
        [Iface.BId; Iface.BNot; Iface.BExp2; Iface.BExp4]) sl

let unknown_ctr = ref 0
let curcall = ref 0      (* index of the API call being reconstructed *)

let plane_cmds = [0x24; 0x26; 0x10; 0x13; 0x14; 0x15]

let data_of_zline (lastcmd : int) (t : string list) : Iface.icall =
  match t with
  | _ :: ns :: h1 :: h2 :: _sig :: rest ->
      let len = int_of_string ns in
      let key = (len, int_of_string h1, int_of_string h2) in
      let hex = L.find_opt (fun x -> String.length x >= 2 && String.sub x 0 2 <> "u=") rest in
      let uni = L.find_opt (fun x -> String.length x > 2 && String.sub x 0 2 = "u=") rest in
      (match Hashtbl.find_opt known key with
       | Some ic when len > 2 || L.mem lastcmd plane_cmds -> ic
       | _ ->
           match uni, hex with
           | Some u, _ -> Iface.IDataX (n (int_of_string ("0x" ^ String.sub u 2 2)), n len)
           | None, Some hx when String.length hx = 2 * len ->
               Iface.IData (Iface.DLit (L.init len (fun i -> n (int_of_string ("0x" ^ String.sub hx (2 * i) 2)))))
           | _ ->
               incr unknown_ctr;
               (* bytes of unknown origin: attributed to THIS call under an argument index no expectation uses,
                  so they match no documented payload but are never mistaken for a retained buffer *)
               Iface.IData (Iface.DArg (n !curcall, n (1000 + !unknown_ctr), n 0, n len)))
  | _ -> failwith "Z line"

(* lines of one op -> transport calls *)
let icalls_of_lines (lines : string list) : Iface.icall list =
  let toks = L.map (fun l -> String.split_on_char ' ' l) lines in
  let last = ref (-1) in
  let rec go acc = function
    | [] -> L.rev acc
    | ("R1" :: _) :: ("T" :: "u" :: a :: _) :: ("R0" :: _) :: ("T" :: "u" :: b :: _) :: ("R1" :: _) :: ("T" :: "u" :: _ :: _) :: r ->
        go (Iface.IReset (n (int_of_string a), n (int_of_string b)) :: acc) r
    | ("R0" :: _) :: r -> go (Iface.IReset (N0, N0) :: acc) r     (* malformed pulse: flagged as zero timing *)
    | ("R1" :: _) :: r -> go acc r
    | ("D0" :: _) :: r | ("D1" :: _) :: r -> go acc r
    | ("C" :: c :: _) :: r -> last := int_of_string ("0x" ^ c); go (Iface.ICmd (n !last) :: acc) r
    | (("Z" :: _) as t) :: r -> go (data_of_zline !last t :: acc) r
    | ("P" :: pol :: _) :: r ->
        (* a wait loop: polls and idle delays *)
        let rec skip = function
          | ("P" :: _) :: r -> skip r
          | ("T" :: "u" :: _) :: (("P" :: _) :: _ as r) -> skip r
          | r -> r in
        go (Iface.IWait (pol = "L") :: acc) (skip r)
    | ("T" :: u :: v :: _) :: r ->
        go (Iface.IDelay ((match u with "n" -> Iface.Dns | "u" -> Iface.Dus | _ -> Iface.Dms), n (int_of_string v)) :: acc) r
    | _ :: r -> go acc r
  in
  go [] toks

(* ------------------------------------------------------------ printing clauses *)
let clause_str (c : Checks.clause) : string =
  let i = int_of_n in
  match c with
  | Checks.ClPanic -> "panic"
  | Checks.ClNoBurst c -> Printf.sprintf "no-data-run cmd=%02x" (i c)
  | Checks.ClManyBursts c -> Printf.sprintf "plane-written-more-than-once cmd=%02x" (i c)
  | Checks.ClGeometry c -> Printf.sprintf "not-full-panel-geometry cmd=%02x" (i c)
  | Checks.ClLength (c, g) -> Printf.sprintf "wrong-length cmd=%02x got=%d" (i c) (i g)
  | Checks.ClPayload c -> Printf.sprintf "payload-not-buffer cmd=%02x" (i c)
  | Checks.ClOtherPlane c -> Printf.sprintf "other-plane-bad cmd=%02x" (i c)
  | Checks.ClRefreshCount k -> Printf.sprintf "refresh-count got=%d" (i k)
  | Checks.ClFillValue (c, v) -> Printf.sprintf "fill-value cmd=%02x got=%02x" (i c) (i v)
  | Checks.ClNotUniform c -> Printf.sprintf "not-uniform cmd=%02x" (i c)
  | Checks.ClStray k -> Printf.sprintf "stray-data bytes=%d" (i k)
  | Checks.ClUndefined c -> Printf.sprintf "undefined-command cmd=%02x" (i c)
  | Checks.ClBlock (c, g) -> Printf.sprintf "block-length cmd=%02x got=%d" (i c) (i g)
  | Checks.ClNonLiteral c -> Printf.sprintf "non-literal-parameter cmd=%02x" (i c)
  | Checks.ClTainted -> "tainted"
  | Checks.ClRamWhileBusy c -> Printf.sprintf "ram-write-while-busy cmd=%02x" (i c)
  | Checks.ClRefreshWhileBusy -> "refresh-while-busy"
  | Checks.ClWaitPolarity -> "wait-polarity"
  | Checks.ClRefreshUnpowered -> "refresh-unpowered"
  | Checks.ClRefreshUninit m -> Printf.sprintf "refresh-uninitialised missing=%02x" (i m)
  | Checks.ClRefreshAsleep -> "refresh-asleep"
  | Checks.ClNoDeepSleep -> "no-deep-sleep"
  | Checks.ClSleepNotLast -> "deep-sleep-not-last"
  | Checks.ClNoReset -> "no-reset-first"
  | Checks.ClNoResetPulse -> "no-reset-pulse"
  | Checks.ClResetTiming -> "reset-timing"
  | Checks.ClRegisters f -> Printf.sprintf "registers-differ field=%d" (i f)
  | Checks.ClGeomReg c -> Printf.sprintf "geometry-register cmd=%02x" (i c)
  | Checks.ClRetained c -> Printf.sprintf "retained-buffer call=%d" (i c)
  | Checks.ClWindow f -> Printf.sprintf "window field=%d" (i f)
  | Checks.ClLutTable c -> Printf.sprintf "lut-table cmd=%02x" (i c)
  | Checks.ClNoLut -> "no-lut-upload"

(* ------------------------------------------------------------ main *)
let main (parse_op : int -> string list -> Ops.op) (bufs : (int * int, Bytes.t) Hashtbl.t)
    (panel_of_string : string -> Panels.panel) (feat : Ops.feat) (script : string) (trace : string) : unit =
  let cases = parse_script script in
  let traces = parse_trace trace in
  L.iter (fun (c : case) ->
      match L.assoc_opt c.id traces with
      | None -> ()
      | Some tops ->
          Hashtbl.reset known; Hashtbl.reset bufs; unknown_ctr := 0;
          let p0 = Specs.spec_of (panel_of_string c.panel) in
          let isig = Hist.init_sig feat p0 in
          let p = Hist.coq_P feat p0 in
          let lref r = Oracle.lut_ref feat p r in
          let lr0 = lref (n 0) and lr1 = lref (n 1) in
          let lref r = if int_of_n r = 0 then lr0 else if int_of_n r = 1 then lr1 else [] in
          let cref = Oracle.clear_ref feat p in
          let slices = L.concat_map (fun (en : PSpec.entry) ->
                           L.map (fun (t : PSpec.target) -> (int_of_n t.PSpec.t_off, int_of_n t.PSpec.t_len)) en.PSpec.en_targets)
                         p.PSpec.ps_entries in
          let drv = Panels.driver_of feat (panel_of_string c.panel) in
          let bg0 = drv.Ops.d_init.Iface.bg in
          let os = ref None in
          let stop = ref false in
          L.iteri (fun i t ->
              if not !stop then
              match L.find_opt (fun (j, _, _, _) -> j = i) tops with
              | None -> stop := true
              | Some (_, nm, lines, res) ->
                  if res <> "OK" && not (String.length res > 3 && String.sub res 0 3 = "OK ") then
                    (* a call that failed / panicked / is unsupported ends the observation of this case *)
                    stop := true
                  else if t = ["new"] then begin
                    let ic = icalls_of_lines lines in
                    let (o1, fails) = Oracle.observe_new p isig bg0 ic in
                    os := Some o1;
                    L.iter (fun (pn, cl) -> Printf.printf "F %s %d %s C%02d %s\n" c.id i nm (int_of_n pn) (clause_str cl)) fails
                  end else
                    match !os with
                    | None -> ()
                    | Some o0 ->
                        (match t with
                         | ("width" | "height" | "background_color") :: _ -> ()
                         | _ ->
                             let o = parse_op i t in
                             (* buffers of this call become recognisable *)
                             Hashtbl.iter (fun (k, a) b -> if k = i then register_buffer slices k a (Bytes.to_string b)) bufs;
                             curcall := i;
                             let ic = icalls_of_lines lines in
                             let (o1, fails) = Oracle.observe p Sys.sym lref isig cref (n i) o0 o ic in
                             os := Some o1;
                             L.iter (fun (pn, cl) -> Printf.printf "F %s %d %s C%02d %s\n" c.id i nm (int_of_n pn) (clause_str cl)) fails))
            c.ops)
    cases

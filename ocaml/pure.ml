(* Pure-function probes answered by the EXTRACTED Coq model (coq/Pure/{Rect,Color,Graphics,Aliases}.v):
   `driver pure <queryfile>`.  Same query language and, when model and code agree, textually the
   same output as harness/src/pure.rs (see there and tools/pure.py).  Hand-written glue: trusted for
   the correspondence check, not for the theorems.

   What comes from the model: every answer (Rect.intersect / sub_offset / is_empty, all Color.*
   conversions and bitmasks, Graphics.buffer_len / buffer_size / var_new_ok / set_pixel /
   apply_write / size, Aliases.aliases).  What is glue, identical on both sides: parsing, the hash,
   the lists of probed coordinates (pxs), the slice lengths tried by var_sweep (doc_req), the start
   patterns (Util.gen_byte), "bw/chromatic plane = first/second half of the buffer", and
   "Display::default() is all zero". *)
module L = Stdlib.List
open BinNums
open Util

let panicv = 1000000007
let errv = 1000000009

type hs = { mutable h1 : int; mutable h2 : int }
let hs_new () = { h1 = 0; h2 = 0 }
let push (h : hs) (v : int) : unit =
  h.h1 <- (h.h1 * b1 + v mod p1 + 1) mod p1;
  h.h2 <- (h.h2 * b2 + v mod p2 + 1) mod p2

let pr = Printf.printf
let n = n_of_int
let i = int_of_n

(* ---------------------------------------------------------------- colours *)
let color_names = [| "black"; "white" |]
let tri_names = [| "black"; "white"; "chromatic" |]
let oct_names = [| "black"; "white"; "green"; "blue"; "red"; "yellow"; "orange"; "hiz" |]
let color_idx = function Color.Black -> 0 | Color.White -> 1
let tri_idx = function Color.TBlack -> 0 | Color.TWhite -> 1 | Color.TChromatic -> 2
let oct_idx = function
  | Color.OBlack -> 0 | Color.OWhite -> 1 | Color.OGreen -> 2 | Color.OBlue -> 3 | Color.ORed -> 4
  | Color.OYellow -> 5 | Color.OOrange -> 6 | Color.OHiZ -> 7
let cn c = color_names.(color_idx c)
let tn c = tri_names.(tri_idx c)
let on c = oct_names.(oct_idx c)

let ct_of_string = function
  | "color" -> Graphics.CtColor | "tri" -> Graphics.CtTri | "oct" -> Graphics.CtOct
  | s -> failwith ("ct " ^ s)
let ct_name = function Graphics.CtColor -> "color" | Graphics.CtTri -> "tri" | Graphics.CtOct -> "oct"
let names_of_ct = function
  | Graphics.CtColor -> color_names | Graphics.CtTri -> tri_names | Graphics.CtOct -> oct_names
let anycolor (ct : Graphics.ctype) (k : int) : Graphics.anycolor =
  match ct with
  | Graphics.CtColor -> Graphics.AColor (L.nth Color.all_color k)
  | Graphics.CtTri -> Graphics.ATri (L.nth Color.all_tri k)
  | Graphics.CtOct -> Graphics.AOct (L.nth Color.all_oct k)

let rot_of = function
  | "0" -> Graphics.Rot0 | "90" -> Graphics.Rot90 | "180" -> Graphics.Rot180 | "270" -> Graphics.Rot270
  | s -> failwith ("rotation " ^ s)
let rots = ["0"; "90"; "180"; "270"]

(* the DOCUMENTED size formula, used only to choose the slice lengths var_sweep tries *)
let doc_req (ct : string) (w : int) (h : int) : int =
  let bpp, planes = match ct with
    | "color" -> (1, 1) | "tri" -> (1, 2) | "oct" -> (4, 1) | s -> failwith ("ct " ^ s) in
  planes * h * ((w * bpp + 7) / 8)

(* ---------------------------------------------------------------- set_pixel targets *)
let alias_names = [|
  "epd1in02"; "epd1in54"; "epd1in54_v2"; "epd1in54b"; "epd1in54c"; "epd2in13_v2"; "epd2in13b_v4";
  "epd2in13bc"; "epd2in66b"; "epd2in7"; "epd2in7_v2"; "epd2in7b"; "epd2in9"; "epd2in9_v2";
  "epd2in9b_v4"; "epd2in9bc"; "epd2in9d"; "epd3in7"; "epd4in2"; "epd5in65f"; "epd5in83_v2";
  "epd5in83b_v2"; "epd7in3f"; "epd7in5"; "epd7in5_hd"; "epd7in5_v2"; "epd7in5b_v2" |]

let find_alias (name : string) : Graphics.alias option =
  let r = ref None in
  Array.iteri (fun k s -> if s = name then r := Some (L.nth Aliases.aliases k)) alias_names;
  !r

type target = {
  tw : int; th : int; bwr : bool; ct : Graphics.ctype; blen : int;
  nw : coq_N; nh : coq_N; nblen : coq_N }

let make_target (spec : string) : target option =
  match String.split_on_char ':' spec with
  | ["alias"; name] ->
      (match find_alias name with
       | None -> None
       | Some a ->
           Some { tw = i a.Graphics.a_w; th = i a.Graphics.a_h; bwr = a.Graphics.a_bwr; ct = a.Graphics.a_ct;
                  blen = i a.Graphics.a_bytes; nw = a.Graphics.a_w; nh = a.Graphics.a_h;
                  nblen = a.Graphics.a_bytes })
  | ["var"; ct; w; h; bwr] ->
      let ct = ct_of_string ct and w = int_of_string w and h = int_of_string h in
      let nb = Graphics.buffer_size ct (n w) (n h) in
      Some { tw = w; th = h; bwr = (bwr = "1"); ct; blen = i nb; nw = n w; nh = n h; nblen = nb }
  | ["var"; ct; w; h; bwr; slack] ->
      (* backing storage [slack] bytes longer than the part buffer() exposes: the model addresses the exposed part
         only ([nblen]); the start patterns cover the whole storage ([blen]) and the tail must never change *)
      let ct = ct_of_string ct and w = int_of_string w and h = int_of_string h in
      let nb = Graphics.buffer_size ct (n w) (n h) in
      Some { tw = w; th = h; bwr = (bwr = "1"); ct; blen = i nb + int_of_string slack; nw = n w; nh = n h; nblen = nb }
  | _ -> failwith ("target " ^ spec)

type pres = PPanic | PChanges of (int * int) list

(* the model's answer for one set_pixel call *)
let model_set (t : target) (rot : Graphics.rotation) (c : Graphics.anycolor) (px : int) (py : int)
  : Graphics.sp_result =
  Graphics.set_pixel t.nblen t.nw t.nh rot t.bwr c (z_of_int px) (z_of_int py)

(* apply the writes sequentially (Graphics.apply_write) to [b]; returns the changed bytes in index
   order and restores [b] *)
let apply_and_restore (b : Bytes.t) (l : Graphics.write list) : (int * int) list =
  let bf : Graphics.buf = fun k -> n (Char.code (Bytes.get b (i k))) in
  let orig = L.map (fun (wr : Graphics.write) -> let k = i wr.Graphics.w_idx in (k, Char.code (Bytes.get b k))) l in
  L.iter (fun (wr : Graphics.write) ->
      let v = i (Graphics.apply_write bf wr wr.Graphics.w_idx) in
      Bytes.set b (i wr.Graphics.w_idx) (Char.chr (v land 255))) l;
  (* first recorded original value of every touched index *)
  let idxs = L.sort_uniq compare (L.map fst orig) in
  let res = L.filter_map (fun k ->
      let o = L.assoc k orig in
      let v = Char.code (Bytes.get b k) in
      if v <> o then Some (k, v) else None) idxs in
  L.iter (fun k -> Bytes.set b k (Char.chr (L.assoc k orig))) idxs;
  res

let run_probe (t : target) (pats : Bytes.t list) rot c px py : pres list =
  match model_set t rot c px py with
  | Graphics.SpIgnored -> L.map (fun _ -> PChanges []) pats
  | Graphics.SpPanic -> L.map (fun _ -> PPanic) pats
  | Graphics.SpWrites l -> L.map (fun b -> PChanges (apply_and_restore b l)) pats

exception Start_panic

let make_pats (t : target) (pats : string) : Bytes.t list =
  L.map (fun p ->
      match p.[0] with
      | 'z' | 'f' | 'r' -> Bytes.init t.blen (fun k -> Char.chr (gen_byte p.[0] 7 k))
      | 'd' ->
          let name = String.sub p 1 (String.length p - 1) in
          let names = names_of_ct t.ct in
          let ci = ref (-1) in
          Array.iteri (fun k s -> if s = name then ci := k) names;
          if !ci < 0 then failwith "drawn colour";
          let c = anycolor t.ct !ci in
          let b = Bytes.make t.blen '\000' in
          let bf : Graphics.buf = fun k -> n (Char.code (Bytes.get b (i k))) in
          for y = 0 to t.th - 1 do
            for x = 0 to t.tw - 1 do
              match model_set t Graphics.Rot0 c x y with
              | Graphics.SpIgnored -> ()
              | Graphics.SpPanic -> raise Start_panic
              | Graphics.SpWrites l ->
                  L.iter (fun (wr : Graphics.write) ->
                      let v = i (Graphics.apply_write bf wr wr.Graphics.w_idx) in
                      Bytes.set b (i wr.Graphics.w_idx) (Char.chr (v land 255))) l
            done
          done;
          b
      | _ -> failwith ("pattern " ^ p))
    (String.split_on_char ',' pats)

let range a b = if b < a then [] else L.init (b - a + 1) (fun k -> a + k)

let pxs (sw : int) (w : int) (h : int) : int list =
  let mn = -2147483648 and mx = 2147483647 in
  range (-3) (sw + 3)
  @ [mn; mn + 1; mn + w - 1; mn + w; mn + h - 1; mn + h; mx - h; mx - w; mx - 1; mx; w + h; 65535; 65536;
     -65536; -w; -h]

(* `a,b,lo:hi:step,...`; a, lo, hi may be written H, H-k, H+k (H = height under the rotation) *)
let parse_ys (s : string) (hh : int) : int list =
  let num s = int_of_string (if s <> "" && s.[0] = '+' then String.sub s 1 (String.length s - 1) else s) in
  let value s =
    if s <> "" && s.[0] = 'H' then
      (if String.length s = 1 then hh else hh + num (String.sub s 1 (String.length s - 1)))
    else num s in
  L.concat_map (fun item ->
      match L.map value (String.split_on_char ':' item) with
      | [y] -> [y]
      | [lo; hi; step] ->
          let rec go y acc = if y > hi then L.rev acc else go (y + step) (y :: acc) in
          go lo []
      | _ -> failwith "ys") (String.split_on_char ',' s)

let fmt_changes = function
  | PPanic -> "PANIC"
  | PChanges [] -> "-"
  | PChanges l -> String.concat "," (L.map (fun (k, v) -> Printf.sprintf "%d:%d" k v) l)

let color_index (t : target) (name : string) : int =
  let r = ref (-1) in
  Array.iteri (fun k s -> if s = name then r := k) (names_of_ct t.ct);
  if !r < 0 then failwith ("colour " ^ name);
  !r

let q_setpix (t : string list) : unit =
  match t with
  | _ :: spec :: rot :: col :: px :: py :: rest ->
      let pats = match rest with p :: _ -> p | [] -> "z,f,r" in
      (match make_target spec with
       | None -> pr "= ERR\n"
       | Some tg ->
           (match (try Some (make_pats tg pats) with Start_panic -> None) with
            | None -> pr "= ERR\n"
            | Some bs ->
                let rot = rot_of rot in
                let c = anycolor tg.ct (color_index tg col) in
                let res = run_probe tg bs rot c (int_of_string px) (int_of_string py) in
                let sw, sh = Graphics.size rot tg.nw tg.nh in
                pr "= %s size=%dx%d\n" (String.concat "|" (L.map fmt_changes res)) (i sw) (i sh)))
  | _ -> failwith "setpix"

let q_setpix_sweep (t : string list) : unit =
  match t with
  | [_; spec; rs; ys; pats] ->
      (match make_target spec with
       | None -> pr "= ERR\n"
       | Some tg ->
           (match (try Some (make_pats tg pats) with Start_panic -> None) with
            | None -> pr "= ERR\n"
            | Some bs ->
                let rs = if rs = "all" then rots else String.split_on_char ',' rs in
                let names = names_of_ct tg.ct in
                L.iter (fun r ->
                    let rot = rot_of r in
                    let sw, sh = Graphics.size rot tg.nw tg.nh in
                    let sw = i sw and sh = i sh in
                    let xs = pxs sw tg.tw tg.th in
                    let ys = parse_ys ys sh in
                    let nxs = L.length xs in
                    Array.iteri (fun ci cname ->
                        let c = anycolor tg.ct ci in
                        L.iter (fun py ->
                            let h = hs_new () in
                            let nchg = ref 0 and npanic = ref 0 in
                            L.iter (fun px ->
                                let chg = ref false and pan = ref false in
                                L.iter (function
                                    | PPanic -> push h panicv; pan := true
                                    | PChanges l ->
                                        push h (L.length l);
                                        L.iter (fun (k, v) -> push h k; push h v) l;
                                        if l <> [] then chg := true)
                                  (run_probe tg bs rot c px py);
                                if !chg then incr nchg;
                                if !pan then incr npanic) xs;
                            push h sw; push h sh;
                            pr "L %s %s %d %d %d %d %d %d\n" r cname py h.h1 h.h2 nxs !nchg !npanic) ys)
                      names) rs))
  | _ -> failwith "setpix_sweep"

(* ---------------------------------------------------------------- rect *)
let mkrect x y w h = { Rect.rx = x; Rect.ry = y; Rect.rw = w; Rect.rh = h }

let q_rect_sweep (t : string list) : unit =
  let r, ax, ay, off = match L.map int_of_string (L.tl t) with
    | [r; ax; ay] -> (r, ax, ay, 0)
    | [r; ax; ay; off] -> (r, ax, ay, off)
    | _ -> failwith "rect_sweep" in
  let small = Array.init (r + 1) n in
  let pos = Array.init (r + 1) (fun k -> n (off + k)) in
  let ax = off + ax and ay = off + ay in
  for aw = 0 to r do
    for ah = 0 to r do
      let a = mkrect (n ax) (n ay) small.(aw) small.(ah) in
      let h = hs_new () in
      let cnt = ref 0 and npanic = ref 0 and nempty = ref 0 in
      for bx = 0 to r do for by = 0 to r do for bw = 0 to r do for bh = 0 to r do
        incr cnt;
        (match Rect.intersect a (mkrect pos.(bx) pos.(by) small.(bw) small.(bh)) with
         | None -> push h panicv; incr npanic
         | Some x ->
             let e = Rect.is_empty x in
             push h (i x.Rect.rx); push h (i x.Rect.ry); push h (i x.Rect.rw); push h (i x.Rect.rh);
             push h (if e then 1 else 0);
             if e then incr nempty)
      done done done done;
      pr "I %d %d %d %d %d %d %d %d %d\n" ax ay aw ah h.h1 h.h2 !cnt !npanic !nempty;
      let h = hs_new () in
      let cnt = ref 0 and npanic = ref 0 in
      for dx = 0 to r do for dy = 0 to r do
        incr cnt;
        (match Rect.sub_offset a pos.(dx) pos.(dy) with
         | None -> push h panicv; incr npanic
         | Some x -> push h (i x.Rect.rx); push h (i x.Rect.ry); push h (i x.Rect.rw); push h (i x.Rect.rh))
      done done;
      pr "S %d %d %d %d %d %d %d %d\n" ax ay aw ah h.h1 h.h2 !cnt !npanic
    done
  done

(* ---------------------------------------------------------------- sizing *)
(* VarDisplay::new + buffer().len() (+ plane lengths for TriColor) *)
let var_new (ct : string) (w : int) (h : int) (l : int) : (int * (int * int) option) option =
  let c = ct_of_string ct in
  if Graphics.var_new_ok c (n w) (n h) (n l) then
    let len = i (Graphics.buffer_size c (n w) (n h)) in
    Some (len, if c = Graphics.CtTri then Some (len / 2, len - len / 2) else None)
  else None

let q_var_sweep (t : string list) : unit =
  match t with
  | [_; ct; wlo; whi; hmax] ->
      let wlo = int_of_string wlo and whi = int_of_string whi and hmax = int_of_string hmax in
      for w = wlo to whi do
        let hh = hs_new () in
        let cnt = ref 0 and nok = ref 0 in
        for h = 0 to hmax do
          let req = doc_req ct w h in
          let lens = (if req > 0 then [req - 1] else []) @ [req; req + 1; 0] in
          L.iter (fun l ->
              incr cnt;
              match var_new ct w h l with
              | None -> push hh errv
              | Some (len, planes) ->
                  push hh 1; push hh len;
                  (match planes with Some (a, b) -> push hh a; push hh b | None -> ());
                  incr nok) lens
        done;
        pr "V %s %d %d %d %d %d\n" ct w hh.h1 hh.h2 !cnt !nok
      done
  | _ -> failwith "var_sweep"

let q_alias (name : string) : unit =
  match find_alias name with
  | None -> pr "= UNKNOWN\n"
  | Some a ->
      let w = a.Graphics.a_w and h = a.Graphics.a_h and bytes = i a.Graphics.a_bytes in
      let sw, sh = Graphics.size Graphics.Rot0 w h in
      let planes = if a.Graphics.a_ct = Graphics.CtTri
        then Printf.sprintf "%d %d" (bytes / 2) (bytes - bytes / 2) else "- -" in
      let var = if Graphics.var_new_ok a.Graphics.a_ct w h a.Graphics.a_bytes
        then string_of_int (i (Graphics.buffer_size a.Graphics.a_ct w h)) else "ERR" in
      pr "= %d %d %d %d %s 1 %d %d %s %s\n" (i w) (i h) (if a.Graphics.a_bwr then 1 else 0) bytes
        (ct_name a.Graphics.a_ct) (i sw) (i sh) planes var

(* ---------------------------------------------------------------- colour *)
let rgb3 ((r, g), b) = Printf.sprintf "%d %d %d" (i r) (i g) (i b)
let app3 f ((r, g), b) = f r g b

let bitmask_positions =
  range 0 15 @ [121; 122; 127; 128; 879; 65535; 65536; 2147483647; 2147483648; 4294967294; 4294967295]

let color_table () : unit =
  let line name v = pr "T %s = %s\n" name (match v with Some s -> s | None -> "PANIC") in
  let s x = Some x in
  L.iter (fun c ->
      let nm = cn c in
      line ("color.get_bit_value " ^ nm) (s (string_of_int (i (Color.get_bit_value c))));
      line ("color.get_byte_value " ^ nm) (s (string_of_int (i (Color.get_byte_value c))));
      line ("color.inverse " ^ nm) (s (cn (Color.inverse c)));
      line ("raw_u1.from_color " ^ nm) (s (string_of_int (i (Color.color_to_raw_u1 c))));
      line ("color.raw_u1_roundtrip " ^ nm) (s (cn (Color.color_from_raw_u1 (Color.color_to_raw_u1 c))));
      line ("rgb888.from_color " ^ nm) (s (rgb3 (Color.color_to_rgb (n 255) (n 255) (n 255) c)));
      line ("rgb565.from_color " ^ nm) (s (rgb3 (Color.color_to_rgb (n 31) (n 63) (n 31) c)));
      line ("rgb555.from_color " ^ nm) (s (rgb3 (Color.color_to_rgb (n 31) (n 31) (n 31) c)));
      line ("color.rgb888_roundtrip " ^ nm)
        (s (cn (app3 Color.color_from_rgb888 (Color.color_to_rgb (n 255) (n 255) (n 255) c))));
      line ("color.rgb565_roundtrip " ^ nm)
        (s (cn (app3 Color.color_from_rgb565 (Color.color_to_rgb (n 31) (n 63) (n 31) c))));
      line ("color.rgb555_roundtrip " ^ nm)
        (s (cn (app3 Color.color_from_rgb555 (Color.color_to_rgb (n 31) (n 31) (n 31) c)))))
    Color.all_color;
  for v = 0 to 255 do
    line (Printf.sprintf "color.from_u8 %d" v) (Option.map cn (Color.from_u8 (n v)))
  done;
  for v = 0 to 255 do
    line (Printf.sprintf "color.from_raw_u1 %d" v) (s (cn (Color.color_from_raw_u1 (n v))))
  done;
  L.iter (fun b ->
      let nm = if b then "on" else "off" in
      line ("color.from_binary " ^ nm) (s (cn (Color.color_from_binary b)));
      line ("tri.from_binary " ^ nm) (s (tn (Color.tri_from_binary b)));
      line ("oct.from_binary " ^ nm) (s (on (Color.oct_from_binary b))))
    [true; false];
  L.iter (fun c ->
      let nm = tn c in
      line ("tri.get_bit_value " ^ nm) (s (string_of_int (i (Color.tri_bit_value c))));
      line ("tri.get_byte_value " ^ nm) (s (string_of_int (i (Color.tri_byte_value c))));
      line ("rgb888.from_tri " ^ nm) (s (rgb3 (Color.tri_to_rgb888 c)));
      line ("tri.rgb888_roundtrip " ^ nm) (s (tn (app3 Color.tri_from_rgb888 (Color.tri_to_rgb888 c)))))
    Color.all_tri;
  for v = 0 to 255 do
    line (Printf.sprintf "tri.from_raw_u2 %d" v) (s (tn (Color.tri_from_raw_u2 (n v))))
  done;
  L.iter (fun c ->
      let nm = on c in
      line ("oct.get_nibble " ^ nm) (s (string_of_int (i (Color.get_nibble c))));
      line ("oct.rgb " ^ nm) (s (rgb3 (Color.rgb c)));
      line ("rgb888.from_oct " ^ nm) (s (rgb3 (Color.rgb c)));
      line ("oct.rgb888_roundtrip " ^ nm) (s (on (app3 Color.oct_from_rgb888 (Color.rgb c)))))
    Color.all_oct;
  L.iter (fun a -> L.iter (fun b ->
      line (Printf.sprintf "oct.colors_byte %s %s" (on a) (on b)) (s (string_of_int (i (Color.colors_byte a b)))))
      Color.all_oct) Color.all_oct;
  for v = 0 to 255 do
    line (Printf.sprintf "oct.from_nibble %d" v)
      (s (match Color.from_nibble (n v) with Some c -> on c | None -> "ERR"))
  done;
  for v = 0 to 255 do
    line (Printf.sprintf "oct.split_byte %d" v)
      (s (match Color.split_byte (n v) with Some (hi, lo) -> on hi ^ " " ^ on lo | None -> "ERR"))
  done;
  for v = 0 to 255 do
    line (Printf.sprintf "oct.from_raw_u4 %d" v) (Option.map on (Color.oct_from_raw_u4 (n v)))
  done;
  L.iter (fun ct ->
      line ("ctype.bpp " ^ ct_name ct) (s (string_of_int (i (Graphics.bpp ct))));
      line ("ctype.nbuf " ^ ct_name ct) (s (string_of_int (i (Graphics.nbuf ct)))))
    [Graphics.CtColor; Graphics.CtTri; Graphics.CtOct];
  L.iter (fun ct ->
      Array.iteri (fun ci cname ->
          L.iter (fun bwr ->
              L.iter (fun pos ->
                  let m, b = Graphics.bitmask (anycolor ct ci) bwr (n pos) in
                  line (Printf.sprintf "bitmask %s %s %d %d" (ct_name ct) cname (if bwr then 1 else 0) pos)
                    (s (Printf.sprintf "%d %d" (i m) (i b))))
                bitmask_positions)
            [false; true])
        (names_of_ct ct))
    [Graphics.CtColor; Graphics.CtTri; Graphics.CtOct]

let n256 = Array.init 256 n

let from888 (f : string) (r : int) (g : int) (b : int) : int =
  match f with
  | "color" -> color_idx (Color.color_from_rgb888 n256.(r) n256.(g) n256.(b))
  | "tri" -> tri_idx (Color.tri_from_rgb888 n256.(r) n256.(g) n256.(b))
  | "oct" -> oct_idx (Color.oct_from_rgb888 n256.(r) n256.(g) n256.(b))
  | s -> failwith ("fn " ^ s)
let name_of (f : string) (k : int) : string =
  match f with
  | "color" | "rgb565" | "rgb555" -> color_names.(k)
  | "tri" -> tri_names.(k)
  | _ -> oct_names.(k)
(* Rgb565::new / Rgb555::new mask their arguments to the channel widths *)
let from565 r g b = color_idx (Color.color_from_rgb565 n256.(r land 31) n256.(g land 63) n256.(b land 31))
let from555 r g b = color_idx (Color.color_from_rgb555 n256.(r land 31) n256.(g land 31) n256.(b land 31))

(* ---------------------------------------------------------------- dispatcher *)
let answer (t : string list) : unit =
  let nn s = n (int_of_string s) in
  match t with
  | ["rect_i"; ax; ay; aw; ah; bx; by; bw; bh] ->
      (match Rect.intersect (mkrect (nn ax) (nn ay) (nn aw) (nn ah)) (mkrect (nn bx) (nn by) (nn bw) (nn bh)) with
       | None -> pr "= PANIC\n"
       | Some x -> pr "= %d %d %d %d %d\n" (i x.Rect.rx) (i x.Rect.ry) (i x.Rect.rw) (i x.Rect.rh)
                     (if Rect.is_empty x then 1 else 0))
  | ["rect_s"; ax; ay; aw; ah; dx; dy] ->
      (match Rect.sub_offset (mkrect (nn ax) (nn ay) (nn aw) (nn ah)) (nn dx) (nn dy) with
       | None -> pr "= PANIC\n"
       | Some x -> pr "= %d %d %d %d\n" (i x.Rect.rx) (i x.Rect.ry) (i x.Rect.rw) (i x.Rect.rh))
  | "rect_sweep" :: _ -> q_rect_sweep t
  | ["buflen"; w; h] -> pr "= %d\n" (i (Graphics.buffer_len (nn w) (nn h)))
  | ["buflen_sweep"; wlo; whi; hmax] ->
      let hmax = int_of_string hmax in
      let hs = Array.init (hmax + 1) n in
      for w = int_of_string wlo to int_of_string whi do
        let hh = hs_new () in
        let nw = n w in
        for h = 0 to hmax do push hh (i (Graphics.buffer_len nw hs.(h))) done;
        pr "B %d %d %d %d\n" w hh.h1 hh.h2 (hmax + 1)
      done
  | ["alias"; name] -> q_alias name
  | "var_new" :: ct :: w :: h :: l :: _ ->
      (match var_new ct (int_of_string w) (int_of_string h) (int_of_string l) with
       | None -> pr "= ERR\n"
       | Some (len, None) -> pr "= OK %d\n" len
       | Some (len, Some (a, b)) -> pr "= OK %d %d %d\n" len a b)
  | "var_sweep" :: _ -> q_var_sweep t
  | "setpix" :: _ -> q_setpix t
  | "setpix_sweep" :: _ -> q_setpix_sweep t
  | ["color_table"] -> color_table ()
  | ["rgb888"; f; r; g; b] ->
      pr "= %s\n" (name_of f (from888 f (int_of_string r) (int_of_string g) (int_of_string b)))
  | ["rgb888_sweep"; f; rlo; rhi; step] ->
      let rhi = int_of_string rhi and step = int_of_string step in
      let r = ref (int_of_string rlo) in
      while !r <= rhi do
        let hh = hs_new () in
        let cnt = ref 0 in
        let g = ref 0 in
        while !g <= 255 do
          let b = ref 0 in
          while !b <= 255 do
            incr cnt;
            push hh (from888 f !r !g !b);
            b := !b + step
          done;
          g := !g + step
        done;
        pr "C %s %d %d %d %d\n" f !r hh.h1 hh.h2 !cnt;
        r := !r + step
      done
  | [("rgb565" | "rgb555") as f; r; g; b] ->
      let r = int_of_string r and g = int_of_string g and b = int_of_string b in
      pr "= %s\n" (name_of f (if f = "rgb565" then from565 r g b else from555 r g b))
  | [("rgb565_sweep" | "rgb555_sweep") as f] ->
      let is565 = (f = "rgb565_sweep") in
      let gmax = if is565 then 63 else 31 in
      for r = 0 to 31 do
        let hh = hs_new () in
        let cnt = ref 0 in
        for g = 0 to gmax do
          for b = 0 to 31 do
            incr cnt;
            push hh (if is565 then from565 r g b else from555 r g b)
          done
        done;
        pr "C %s %d %d %d %d\n" (String.sub f 0 6) r hh.h1 hh.h2 !cnt
      done
  | _ -> pr "= UNKNOWN-QUERY\n"

let main (path : string) : unit =
  let ic = open_in path in
  (try
     while true do
       let line = input_line ic in
       let t = L.filter (fun x -> x <> "")
           (String.split_on_char ' ' (String.map (fun c -> if c = '\t' then ' ' else c) (String.trim line))) in
       match t with
       | [] -> ()
       | w :: _ when w.[0] = '#' -> ()
       | _ -> pr "? %s\n" (String.concat " " t); answer t
     done
   with End_of_file -> close_in ic);
  flush stdout
